"""Compare a junit xml of the repository's test-suite with the pinned baseline."""
import json, sys, xml.etree.ElementTree as ET
b = json.load(open('/root/.vp/BASELINE.json'))
t = ET.parse(sys.argv[1])
passed = set()
for tc in t.iter('testcase'):
    name = tc.get('classname') + '::' + tc.get('name')
    if not any(c.tag in ('failure', 'error', 'skipped') for c in tc):
        passed.add(name)
sp = set(b['stable_pass'])
missing = sorted(sp - passed)
print('passed', len(passed), 'baseline', len(sp), 'missing', missing, 'newly passing', sorted(passed - sp))
sys.exit(1 if missing else 0)

"""Known findings: genuine defects of the unchanged tree that were recorded instead of repaired.

A finding is identified by a *signature* over the divergence record (which comparator fired,
at which kind of call, at which entry point, on which storage layout / level / flags), never by
the property alone, so a different violation of the same property is still reported.
The file is read-only at run time.
"""

from __future__ import annotations

import json
import os
from typing import Any, Dict, List, Optional

HERE = os.path.dirname(os.path.abspath(__file__))
PATH = os.path.normpath(os.path.join(HERE, "..", "known_findings.json"))


def load() -> List[Dict[str, Any]]:
    with open(PATH) as f:
        return json.load(f)["findings"]


def homes(cell: str) -> List[str]:
    return [c.split(":")[1] for c in cell.split(",") if c.count(":") == 2]


def levels(cell: str) -> List[str]:
    return [c.split(":")[2] for c in cell.split(",") if c.count(":") == 2]


def kinds(cell: str) -> List[str]:
    return [c.split(":")[0] for c in cell.split(",") if c.count(":") == 2]


def matches(f: Dict[str, Any], prop: str, v: Dict[str, Any]) -> bool:
    if f["property"] != prop:
        return False
    m = f["match"]
    for key, want in m.items():
        if key in ("kind", "a", "en", "g"):
            got = v.get(key)
            if isinstance(want, list):
                if got not in want:
                    return False
            elif got != want:
                return False
        elif key == "home_any":
            if want not in homes(v.get("cell", "")):
                return False
        elif key == "home_all":
            hs = homes(v.get("cell", ""))
            if not hs or any(h != want for h in hs):
                return False
        elif key == "level_any":
            if want not in levels(v.get("cell", "")):
                return False
        elif key == "kind_any":
            if want not in kinds(v.get("cell", "")):
                return False
        elif key == "flags":
            for fk, fv in want.items():
                if v.get("flags", {}).get(fk) != fv:
                    return False
        elif key == "detail_has":
            if want not in v.get("detail", ""):
                return False
        else:
            raise KeyError(f"unknown match key {key}")
    return True


def classify(prop: str, v: Dict[str, Any], findings: Optional[List[Dict[str, Any]]] = None) -> Optional[Dict[str, Any]]:
    for f in findings if findings is not None else load():
        if matches(f, prop, v):
            return f
    return None

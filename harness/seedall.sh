#!/bin/bash
# Regression of the seeded changes against the quick tier: every seed against the check of the property it breaks
# plus the checks that caught it before.   harness/seedall.sh [glob]   (default: all; e.g. '*_r2_*')
# Needs /repo to itself.  Writes out/seedrun_<tag>.txt.
cd "$(dirname "$0")/.."
pat=${1:-[Co]*}
tag=$(echo "$pat" | tr -cd 'A-Za-z0-9_')
out=out/seedrun_${tag:-all}.txt; : > $out
declare -A extra=( [C01_2]="C07" [C02_1]="C03" [C03_2]="C02" [C04_2]="C14" [C05_2]="C13" [C07_1]="C01" [C10_2]="C11" [C13_1]="C02" [C13_2]="C02" [C13_3]="C02" [C17_1]="C05" [own_C01_dropped_conj_ps_matrix]="C07" )
for d in seeded/$pat/; do
  s=$(basename $d)
  case $s in own_*) p=$(echo $s | cut -d_ -f2);; *) p=${s%%_*};; esac
  echo "=== $s" >> $out
  PYTHONPATH=/verif python3 -m harness.seedtest $d/patch.diff $p ${extra[$s]} 2>&1 | tail -9 >> $out
done
echo finished >> $out

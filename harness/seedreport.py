"""Collects the results of harness.seedtest runs (out/seedrun*.txt) into seeded/*/meta.json and a markdown table."""
import glob, json, os, re, sys
ROOT = os.path.normpath(os.path.join(os.path.dirname(os.path.abspath(__file__)), ".."))
res = {}
for f in sorted(glob.glob(os.path.join(ROOT, "out", "seedrun*.txt")), key=os.path.getmtime):
    cur = None
    for ln in open(f):
        m = re.match(r"^=== (\S+)", ln)
        if m:
            cur = m.group(1)
            continue
        m = re.match(r"^(C\d+): rc=(\d) violations=(\d+)", ln)
        if m and cur:
            res.setdefault(cur, {})[m.group(1)] = {"rc": int(m.group(2)), "violations": int(m.group(3)), "log": os.path.basename(f)}
rows = []
for d in sorted(glob.glob(os.path.join(ROOT, "seeded", "*"))):
    name = os.path.basename(d)
    if name.startswith("_"):
        continue
    mp = os.path.join(d, "meta.json")
    meta = json.load(open(mp)) if os.path.exists(mp) else {"property": name.split("_")[1] if name.startswith("own") else name.split("_")[0]}
    r = res.get(name, {})
    meta["checks_run"] = {k: ("VIOLATION reported" if v["rc"] == 1 else ("machinery failure" if v["rc"] == 2 else "not detected")) for k, v in r.items()}
    meta["caught_by_quick_checks"] = sorted(k for k, v in r.items() if v["rc"] == 1)
    notes = os.path.join(d, "notes.md")
    if os.path.exists(notes) and "summary" not in meta:
        txt = open(notes).read()
        meta["summary"] = " ".join(txt.split())[:300]
    json.dump(meta, open(mp, "w"), indent=1)
    rows.append((name, meta.get("property"), meta.get("what", meta.get("summary", ""))[:150], ", ".join(meta["caught_by_quick_checks"]) or ("(not run)" if not r else "MISSED"), ", ".join(k for k, v in r.items() if v["rc"] != 1)))
print("| seed | breaks | caught by (quick tier) | also run, silent |")
print("|---|---|---|---|")
for name, prop, what, caught, silent in rows:
    print(f"| {name} | {prop} | {caught} | {silent} |")

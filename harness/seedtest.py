"""
Run checks against a seeded change:  python -m harness.seedtest <patch.diff> <ID> [<ID> ...] [--tier quick]

Applies the patch to /repo (git apply), runs the named checks, restores /repo (git checkout -- .)
whatever happens, and prints which checks raised a VIOLATION.
"""
import os
import subprocess
import sys
import time

ROOT = os.path.normpath(os.path.join(os.path.dirname(os.path.abspath(__file__)), ".."))


def main() -> int:
    args = [a for a in sys.argv[1:] if not a.startswith("--")]
    tier = "--thorough" if "--thorough" in sys.argv else "--quick"
    patch, pids = os.path.abspath(args[0]), args[1:]
    st = subprocess.run(["git", "-C", "/repo", "status", "--porcelain", "--untracked-files=no"], capture_output=True, text=True).stdout
    if st.strip():
        print("refusing: /repo has uncommitted changes\n" + st)
        return 2
    r = subprocess.run(["git", "-C", "/repo", "apply", patch], capture_output=True, text=True)
    if r.returncode != 0:
        print("patch does not apply:", r.stderr)
        return 2
    results = {}
    try:
        for pid in pids:
            t0 = time.time()
            env = dict(os.environ)
            env["VERIF_EVIDENCE_DIR"] = os.path.join(ROOT, "out", "evidence_seed")     # never overwrite the committed evidence
            p = subprocess.run([os.path.join(ROOT, "check"), pid, tier], capture_output=True, text=True, cwd=ROOT, env=env)
            out = p.stdout + p.stderr
            viol = [ln for ln in out.splitlines() if ln.startswith("VIOLATION")]
            det = [ln for ln in out.splitlines() if ln.startswith("  ")][:3]
            results[pid] = (p.returncode, len(viol), round(time.time() - t0))
            print(f"{pid}: rc={p.returncode} violations={len(viol)} ({results[pid][2]} s)")
            for d in det:
                print("   " + d.strip()[:220])
            if p.returncode == 2:
                print(out[-1500:])
    finally:
        subprocess.run(["git", "-C", "/repo", "checkout", "--", "."])
        subprocess.run(["git", "-C", "/repo", "clean", "-fdq", "--", "photon_weave"])
    caught = [pid for pid, (rc, n, _) in results.items() if rc == 1]
    print("CAUGHT BY:", caught if caught else "nothing")
    return 0


if __name__ == "__main__":
    sys.exit(main())

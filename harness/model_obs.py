"""
Observations that evaluate the specification's action on floating-point data, for requests whose
parameters lie outside the exact lattice of PW.tla (continuous-parameter programs of the trace family).

The RULE is the specification's:  an operation on a Fock space acts as U rho U† with U = exp(generator)
(generators as in Gates.tla: GDispGen, GSqGen), a channel acts as sum_i (K_i x I) rho (K_i x I)† with the
factors bound to the targets in the order given (Tensor.tla: EnsKraus).  The harness evaluates the rule
on the joint density operator recorded BEFORE the call and logs how far the state recorded AFTER the
call is from it, as integers in units of 1e-9.  The verdict is taken by TLC (PWContract.tla, clauses
`CutoffAdequate` and `ChannelMatchesModel`).

  tail : population of the ideal (large-cutoff) result that lies beyond the cutoff the library chose
  dev  : largest entry-wise difference between the recorded result and the ideal one
"""
from __future__ import annotations

from typing import Any, Dict, List, Optional, Sequence

import numpy as np

UNIT = 1e-9
CAP = 2_000_000_000
MARGIN = 60          # extra levels for the "infinite-dimensional" reference


def _q(x: float) -> int:
    if not np.isfinite(x):
        return CAP
    return int(min(CAP, max(0, round(abs(x) / UNIT))))


NONE = {"k": "none", "tail": 0, "dev": 0}


def _ladder(D: int) -> np.ndarray:
    a = np.zeros((D, D), dtype=complex)
    for n in range(1, D):
        a[n - 1, n] = np.sqrt(n)
    return a


def ideal_unitary(kind: str, params: Dict[str, Any], D: int) -> Optional[np.ndarray]:
    from scipy.linalg import expm

    a = _ladder(D)
    ad = a.conj().T
    if kind == "Displace":
        al = complex(params["alpha"])
        return expm(al * ad - np.conj(al) * a)
    if kind == "Squeeze":
        z = complex(params["zeta"])
        return expm(0.5 * (np.conj(z) * (a @ a) - z * (ad @ ad)))
    return None


def reduce_to(rho: np.ndarray, dims: Sequence[int], pos: int) -> np.ndarray:
    n = len(dims)
    t = rho.reshape(list(dims) + list(dims))
    # trace out every factor except pos
    keep = pos
    idx_in = list(range(2 * n))
    for k in range(n):
        if k != keep:
            idx_in[n + k] = idx_in[k]
    out = [keep, n + keep]
    return np.einsum(t, idx_in, out)


BLOCK_CAP = 2048


def reduced_state(world: Any, sid: int) -> Optional[np.ndarray]:
    """Reduced density operator of one live subsystem, read from the block that stores it (no joint state needed)."""
    from . import project

    try:
        for b in project.find_blocks(world):
            if sid not in b["members"]:
                continue
            if b["kind"] == "own":
                return project.own_density(world.subs[sid], 1)
            bd = [project._impl_dim(world, x) for x in b["members"]]
            if any(d < 1 for d in bd) or int(np.prod(bd)) > BLOCK_CAP:
                return None
            return reduce_to(project.block_density(b["obj"].state, bd), bd, b["members"].index(sid))
    except Exception:  # noqa: BLE001   the structural clauses report broken bookkeeping
        return None
    return None


def cut_obs(a: Optional[np.ndarray], b: Optional[np.ndarray], kind: str, params: Dict[str, Any]) -> Dict[str, Any]:
    """Displace / Squeeze on a Fock space: compare its reduced state after the call (b) with the large-cutoff
    ideal applied to its reduced state before the call (a)."""
    if a is None or b is None:
        return NONE
    if abs(np.trace(a)) < 1e-12 or abs(np.trace(b)) < 1e-12:
        return NONE
    d0, d1 = a.shape[0], b.shape[0]
    D = max(d0, d1) + MARGIN
    U = ideal_unitary(kind, params, D)
    if U is None:
        return NONE
    pad = np.zeros((D, D), dtype=complex)
    pad[:d0, :d0] = a / np.trace(a)
    ideal = U @ pad @ U.conj().T
    tail = float(1.0 - np.real(np.trace(ideal[:d1, :d1])))
    b = b / np.trace(b)
    dev = float(np.max(np.abs(b - ideal[:d1, :d1])))
    return {"k": "cut", "tail": _q(max(tail, 0.0)), "dev": _q(dev)}


def kraus_obs(jpre: Any, jpost: Any, targets: List[int], ops: List[Any]) -> Dict[str, Any]:
    """apply_kraus(ops, *targets): sum_i (K_i x I) rho (K_i x I)† with factors bound in the order given."""
    if isinstance(jpre, str) or isinstance(jpost, str):
        return NONE
    rpre, lpre, dpre = jpre
    rpost, lpost, dpost = jpost
    if lpre != lpost or list(dpre) != list(dpost) or any(t not in lpre for t in targets) or len(set(targets)) != len(targets):
        return NONE
    n = len(dpre)
    pos = [lpre.index(t) for t in targets]
    tdims = [dpre[p] for p in pos]
    dT = int(np.prod(tdims))
    mats = [np.asarray(k, dtype=complex) for k in ops]
    if any(m.shape != (dT, dT) for m in mats):
        return NONE
    t = rpre.reshape(list(dpre) + list(dpre))
    rest = [k for k in range(n) if k not in pos]
    perm = pos + rest
    t = t.transpose(perm + [n + p for p in perm])
    dR = int(np.prod([dpre[k] for k in rest])) if rest else 1
    m = t.reshape(dT, dR, dT, dR)
    out = np.zeros_like(m)
    for K in mats:
        out += np.einsum("ab,bicj,dc->aidj", K, m, K.conj())
    out = out.reshape([dpre[p] for p in perm] * 2)
    inv = [perm.index(k) for k in range(n)]
    out = out.transpose(inv + [n + p for p in inv])
    N = int(np.prod(dpre))
    pred = out.reshape(N, N)
    tr = np.trace(pred)
    if abs(tr) < 1e-12:
        return NONE
    pred = pred / tr
    dev = float(np.max(np.abs(pred - rpost / np.trace(rpost))))
    return {"k": "kraus", "tail": 0, "dev": _q(dev)}

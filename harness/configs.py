"""Generation of TLC configuration files for spec/MC.tla."""

from __future__ import annotations

import os
from typing import Dict, List, Optional

from .tlcrun import OUT

UNIVERSES = {
    "U1": dict(NSub=3, NEnv=1),
    "U2": dict(NSub=5, NEnv=2),
    "U3": dict(NSub=7, NEnv=3),
    "U4": dict(NSub=4, NEnv=2),
}

INVARIANTS = ["TypeOK", "WeightPositive", "DeadIsVacuum", "PartitionOK", "BlocksFactorise"]
PROPERTIES = ["StructuralKeepsPhysics", "RejectedIsNoop", "MeasureProps", "PovmProps", "KrausProps",
              "PassiveConservesNumber", "PhaseConservesNumber"]


def make_cfg(name: str, universe: str, depth: int, thin: bool, families: str = "Fam_All",
             ops: str = "All", init: Optional[str] = None, exhaustive: bool = False,
             overrides: Optional[Dict[str, str]] = None, next_: str = "NextSim", scripts: str = "NoScript",
             focus: str = "NoFocus", cover: bool = False) -> str:
    u = UNIVERSES[universe]
    sets = {
        "PolGates": f"{ops}_PolGates", "FockGates": f"{ops}_FockGates", "CusGates": f"{ops}_CusGates",
        "CompGates": f"{ops}_CompGates", "KronOps": f"{ops}_KronOps", "CustomOps2": f"{ops}_Custom2",
        "CustomOps3": f"{ops}_Custom3", "Kraus1": f"{ops}_Kraus1", "Kraus2": f"{ops}_Kraus2",
        "Povm1": f"{ops}_Povm1", "Povm2": f"{ops}_Povm2",
    }
    if overrides:
        sets.update(overrides)
    lines = ["CONSTANTS", f"  NSub = {u['NSub']}", f"  NEnv = {u['NEnv']}",
             f"  Dim <- {universe}_Dim", f"  Kind <- {universe}_Kind", f"  EnvIdx <- {universe}_Env",
             f"  InitLevels <- {init or universe + '_Init'}"]
    for k, v in sets.items():
        lines.append(f"  {k} <- {v}")
    lines += [f"  Families <- {families}", f"  MaxDepth = {depth}", f"  Thin = {'TRUE' if thin else 'FALSE'}",
              f"  Scripts <- {scripts}", f"  Focus <- {focus}",
              "INIT Init", f"NEXT {'Next' if (exhaustive or cover) else next_}", "CHECK_DEADLOCK FALSE"]
    if cover:
        lines.append("ACTION_CONSTRAINT ExportAC")
    elif exhaustive:
        lines += [f"INVARIANT {i}" for i in INVARIANTS]
        lines += [f"PROPERTY {p}" for p in PROPERTIES]
        lines.append("VIEW View")
    else:
        lines.append("INVARIANT ExportInv")
    path = os.path.join(OUT, name)
    os.makedirs(OUT, exist_ok=True)
    with open(path, "w") as f:
        f.write("\n".join(lines) + "\n")
    return path

"""
Binding and vacuity demonstrations:  ./check SELFTEST

1. corrupt-a-field: one field of one recorded line is changed per clause; TLC (PWTrace.tla) must report
   exactly that clause on that line.
2. corrupt-an-expectation: one amplitude / one weight of a TLC-generated behaviour is changed; the
   replay must report a joint-state / probability divergence.
3. remove-a-hook: a replay with the repository hook disabled must end as a machinery failure, not as
   a pass and not as a violation.
"""
from __future__ import annotations

import copy
import json
import os
import re
import shutil
import sys
from typing import Any, Callable, Dict, List, Tuple

from . import configs, pool, tlcrun
from .tlcrun import OUT


def _traces_and_behaviours() -> Tuple[List[List[Dict[str, Any]]], List[Dict[str, Any]]]:
    from .check import stratified

    beh = []
    for k, scripts in enumerate(("U2_ScriptsReg", "U2_ScriptsQ")):
        cfg = configs.make_cfg(f"selftest_cover{k}.cfg", "U2", 1, False, families="Fam_All", ops="All", init="U2_ExInit",
                               scripts=scripts, focus="F_Measure", cover=True)
        rc, out = tlcrun.tlc("MC", cfg, ["-workers", "8"], timeout=1200)
        beh += stratified(tlcrun.parse_traces(out), 40, 1 + k)
    d = os.path.join(OUT, "selftest_traces")
    shutil.rmtree(d, ignore_errors=True)
    os.makedirs(d)
    res = pool.replay_all(beh, procs=4, trace_dir=d)
    assert all(not r["viol"] and not r.get("harness_error") for r in res), "selftest needs a clean tree"
    lines = []
    for f in sorted(os.listdir(d)):
        if f.endswith(".ndjson"):
            lines += [json.loads(x) for x in open(os.path.join(d, f))]
    return beh, lines


def _validate(lines: List[Dict[str, Any]]) -> List[Tuple[int, int, str]]:
    path = os.path.join(OUT, "selftest_one.ndjson")
    with open(path, "w") as f:
        for ln in lines:
            f.write(json.dumps(ln) + "\n")
    rc, out = tlcrun.tlc("PWTrace", "PWTrace.cfg", ["-workers", "1"], timeout=600, env={"TRACE_FILE": path})
    if "CONSUMED" not in out:
        raise RuntimeError("trace validation failed in selftest:\n" + out[-1500:])
    return [(int(a), int(b), c) for a, b, c in re.findall(r'<<"CLAUSE", (-?\d+), (\d+), "(\w+)">>', out)]


def corrupt_fields(lines: List[Dict[str, Any]]) -> List[Tuple[str, bool, str]]:
    results = []

    def find(pred: Callable[[Dict[str, Any]], bool]) -> Dict[str, Any]:
        for ln in lines:
            if pred(ln):
                return copy.deepcopy(ln)
        raise LookupError("no suitable line recorded")

    def has_ps(ln: Dict[str, Any], n: int = 1) -> bool:
        return sum(len(c["ps"]) for c in ln["post"]["conts"]) >= n and ln["ev"]["res"] == "ok"

    cases: List[Tuple[str, str, Callable[[Dict[str, Any]], None], Callable[[Dict[str, Any]], bool]]] = []

    def c_index(ln):
        ps = [p for c in ln["post"]["conts"] for p in c["ps"]][0]
        s = [x for x in ln["post"]["subs"] if x["id"] == ps["mem"][0]][0]
        s["ix"] = [s["ix"][0], s["ix"][1] + 1]
    cases.append(("stale tensor position in an index", "IndexNamesHome", c_index, has_ps))

    def c_level(ln):
        ps = [p for c in ln["post"]["conts"] for p in c["ps"]][0]
        s = [x for x in ln["post"]["subs"] if x["id"] == ps["mem"][0]][0]
        s["lv"] = "M" if s["lv"] == "V" else "V"
    cases.append(("member reports another level than its product space", "MembersShareLevel", c_level, has_ps))

    def c_shape(ln):
        ps = [p for c in ln["post"]["conts"] for p in c["ps"]][0]
        ps["n"] += 1
    cases.append(("array shape is not the product of the member dimensions", "ShapeIsProduct", c_shape, has_ps))

    def c_unit(ln):
        ps = [p for c in ln["post"]["conts"] for p in c["ps"]][0]
        ps["fl"][1] = False
    cases.append(("product state not normalised", "NumericOK", c_unit, has_ps))

    def c_tag(ln):
        ps = [p for c in ln["post"]["conts"] for p in c["ps"]][0]
        ps["lv"] = "M" if ps["rp"] == "vec" else "V"
        for x in ln["post"]["subs"]:
            if x["id"] in ps["mem"]:
                x["lv"] = ps["lv"]
    cases.append(("level tag contradicts the representation", "TagMatchesRepr", c_tag, has_ps))

    def c_back(ln):
        c = [c for c in ln["post"]["conts"] if c["ps"]][0]
        sid = c["ps"][0]["mem"][0]
        [x for x in ln["post"]["subs"] if x["id"] == sid][0]["cc"] = 0
    cases.append(("subsystem in a product space does not point back to the composite", "BackPointers", c_back, has_ps))

    def c_dup(ln):
        c = [c for c in ln["post"]["conts"] if c["ps"]][0]
        c["ps"].append(copy.deepcopy(c["ps"][0]))
    cases.append(("product space listed twice", "NoDupNoEmpty", c_dup, has_ps))

    def c_two_homes(ln):
        c = [c for c in ln["post"]["conts"] if c["ps"]][0]
        sid = c["ps"][0]["mem"][0]
        s = [x for x in ln["post"]["subs"] if x["id"] == sid][0]
        s.update(rp="vec", n=s["dim"], dg="aa")
    cases.append(("subsystem stored in two places", "OneHome", c_two_homes, has_ps))

    def c_measured(ln):
        s = [x for x in ln["post"]["subs"] if not x["ms"] and x["k"] != "C" and x["rp"] != "none"][0]
        s["ms"] = True
    cases.append(("flagged measured but still holding a state", "MeasuredGone", c_measured,
                  lambda ln: any(not x["ms"] and x["k"] != "C" and x["rp"] != "none" for x in ln["post"]["subs"])))

    def bystander_line(ln):
        if ln["ev"]["res"] != "ok" or ln["ev"]["a"] in ("new_envelope", "new_custom", "new_sub", "new_composite", "new_operation"):
            return False
        addr = set(ln["ev"]["addr"])
        pre_env = {x["id"]: x["env"] for x in ln["pre"]["subs"]}
        touched = set(addr)
        for s in list(addr):
            touched |= {i for i, e in pre_env.items() if e and e == pre_env.get(s)}
        return any(x["rp"] != "none" and x["id"] not in touched for x in ln["pre"]["subs"]) and \
            any(x["rp"] != "none" and x["id"] not in touched for x in ln["post"]["subs"])

    def c_bystander(ln):
        addr = set(ln["ev"]["addr"])
        pre_env = {x["id"]: x["env"] for x in ln["pre"]["subs"]}
        touched = set(addr)
        for s in list(addr):
            touched |= {i for i, e in pre_env.items() if e and e == pre_env.get(s)}
        s = [x for x in ln["post"]["subs"] if x["rp"] != "none" and x["id"] not in touched][0]
        s["dg"] = "ffffffffffffffff"
    cases.append(("bystander amplitudes changed", "BystanderUntouched", c_bystander, bystander_line))

    def c_key(ln):
        ln["ev"]["draws"] = ln["ev"]["draws"] + [ln["ev"]["draws"][0]]
    cases.append(("a key used for two draws", "KeyFresh", c_key, lambda ln: len(ln["ev"]["draws"]) >= 1))

    def c_keys(ln):
        ln["ev"]["keys"] = ln["ev"]["keys"][:-1]
    cases.append(("outcome dictionary misses a measured subsystem", "OutcomeKeys", c_keys,
                  lambda ln: ln["ev"]["a"] == "measure" and ln["ev"]["res"] == "ok" and len(ln["ev"]["keys"]) >= 1))

    def c_cut(ln):
        ln["ev"]["mdl"] = {"k": "cut", "tail": 20000, "dev": 100}
    cases.append(("ideal result has 2e-5 of its population beyond the chosen cutoff", "CutoffAdequate", c_cut,
                  lambda ln: ln["ev"]["res"] == "ok" and ln["ev"]["a"] == "apply_operation"))

    def c_chan(ln):
        ln["ev"]["mdl"] = {"k": "kraus", "tail": 0, "dev": 20000}
    cases.append(("state after a channel is 2e-5 away from sum K rho K^dagger", "ChannelMatchesModel", c_chan,
                  lambda ln: ln["ev"]["res"] == "ok"))

    for what, clause, mutate, pred in cases:
        try:
            ln = find(pred)
        except LookupError:
            results.append((f"corrupt-a-field: {what}", False, "no suitable recorded line"))
            continue
        clean = [c for (_, _, c) in _validate([ln])]
        mutate(ln)
        got = [c for (_, _, c) in _validate([ln])]
        ok = clause in got and clause not in clean
        results.append((f"corrupt-a-field: {what} -> {clause}", ok, f"clauses reported: {sorted(set(got))} (clean line: {sorted(set(clean))})"))
    return results


def corrupt_expectations(beh: List[List[Dict[str, Any]]]) -> List[Tuple[str, bool, str]]:
    results = []
    b1 = copy.deepcopy(next(b for b in beh if any(r["a"] == "measure" for r in b)))
    k = max(i for i, r in enumerate(b1) if r["a"] == "measure")
    post = b1[k - 1]["post"]
    nz = next((i, j) for i, ket in enumerate(post) for j, a in enumerate(ket) if a != [0, 0, 0, 0])
    alt = next(j for j, a in enumerate(post[nz[0]]) if a == [0, 0, 0, 0])
    post[nz[0]][alt] = [1, 0, 0, 0]
    r = pool.replay_all([b1], procs=1)[0]
    ok = any(v["kind"] in ("joint", "prob") for v in r["viol"])
    results.append(("corrupt-an-expectation: one amplitude of the expected joint state", ok, str([v["kind"] for v in r["viol"]])))
    b2 = copy.deepcopy(next(b for b in beh if b[-1]["a"] == "measure" and sum(1 for w in b[-1]["wt"] if w != [0, 0]) >= 2))
    wt = b2[-1]["wt"]
    i = next(i for i, w in enumerate(wt) if w != [0, 0])
    wt[i] = [wt[i][0] * 3 + 1, wt[i][1]]
    r = pool.replay_all([b2], procs=1)[0]
    ok = any(v["kind"] == "prob" for v in r["viol"])
    results.append(("corrupt-an-expectation: one weight of the exact weight table", ok, str([v["kind"] for v in r["viol"]])))
    return results


def remove_hook(beh: List[List[Dict[str, Any]]]) -> List[Tuple[str, bool, str]]:
    b = next(x for x in beh if x[-1]["a"] == "measure" and sum(1 for w in x[-1]["wt"] if w != [0, 0]) >= 2)
    r = pool.replay_all([b], procs=1, extra_env={"PHOTON_WEAVE_VERIF": "0"})[0]
    ok = bool(r.get("harness_error")) and not r["viol"]
    return [("remove-a-hook: replay with the announce hook disabled is a machinery failure", ok,
             (r.get("harness_error") or "no harness error")[:120] + f" violations={len(r['viol'])}")]


def main() -> int:
    from .check import ensure_speclib

    ensure_speclib()
    beh, lines = _traces_and_behaviours()
    results = corrupt_fields(lines) + corrupt_expectations(beh) + remove_hook(beh)
    bad = 0
    for what, ok, detail in results:
        print(("ok   " if ok else "FAIL ") + what + "   [" + detail + "]")
        bad += 0 if ok else 1
    print(f"selftest: {len(results) - bad}/{len(results)} demonstrations behave as required")
    return 0 if bad == 0 else 2


if __name__ == "__main__":
    sys.exit(main())

"""Vacuity guard for the scripted cover: every script of every plan must be completed by the specification
(python -m harness.deadscripts [quick|thorough])."""
import json
import sys

from harness import configs, tlcrun
from harness.plans import REPLAY_PLANS, TRACE_PLANS


def main() -> int:
    tiers = [a for a in sys.argv[1:] if a in ("quick", "thorough")] or ["quick", "thorough"]
    only = [a for a in sys.argv[1:] if a not in ("quick", "thorough")]
    seen, bad = set(), 0
    plans = dict(REPLAY_PLANS)
    plans.update(TRACE_PLANS)
    for pid, plan in sorted(plans.items()):
        if only and pid not in only:
            continue
        for tier in tiers:
            for g in plan.get("cover", {}).get(tier, []):
                key = json.dumps([g["u"], g["scripts"], g.get("init"), g.get("over"), g["focus"], g.get("fam")], sort_keys=True)
                if key in seen:
                    continue
                seen.add(key)
                cfg = configs.make_cfg("deadscripts.cfg", g["u"], 1, False, families=g.get("fam", "Fam_All"), ops=g.get("ops", "All"),
                                       init=g.get("init", g["u"] + "_ExInit"), overrides=g.get("over"), scripts=g["scripts"],
                                       focus=g["focus"], cover=True)
                rc, out = tlcrun.tlc("MC", cfg, ["-workers", "8"], timeout=2400)
                err = tlcrun.failed(out)
                if err:
                    print(f"{pid} {g['u']} {g['scripts']}: TLC failed: {err}")
                    bad += 1
                    continue
                tr = tlcrun.parse_traces(out)
                n, dead = tlcrun.dead_scripts(out, tr)
                print(f"{pid} {tier} {g['u']} {g['scripts']} init={g.get('init')} focus={g['focus']}: {n} scripts, {len(tr)} behaviours, {len(dead)} dead", flush=True)
                for d in dead:
                    bad += 1
                    print("   DEAD " + json.dumps([{k: v for k, v in r.items()} for r in d])[:400])
    return 1 if bad else 0


if __name__ == "__main__":
    sys.exit(main())

"""
C08 contraction twins: the same seeded continuous-parameter program executed in lockstep with the
automatic contraction switch ON in one world and OFF in the other (same PRNG key before every
step).  After every step the joint density operators of the two worlds are compared; the verdict
("every step equal") is taken by TLC (spec/CTwin.tla) on the recorded lines.

python -m harness.ctwins <seed> <nprograms> <nsteps> <out.ndjson>
"""
import json
import os
import random
import sys

os.environ.setdefault("PHOTON_WEAVE_VERIF", "1")
os.environ.setdefault("XLA_FLAGS", "--xla_cpu_multi_thread_eigen=false intra_op_parallelism_threads=1")
os.environ.setdefault("JAX_PLATFORMS", "cpu")

import numpy as np  # noqa: E402

TOL = 1e-5      # the library's own purity / label tolerances are 1e-6: stay an order of magnitude above


class ProgWorld:
    """world-like view of a drivers.Program for project.joint_density"""

    def __init__(self, prog):
        self.prog = prog
        self.subs = {i + 1: s for i, s in enumerate(prog.subs())}
        self.order = sorted(self.subs)
        self._ids = {id(s): i for i, s in self.subs.items()}
        self.envs = {i + 1: e for i, e in enumerate(prog.envs)}
        self.model_dim = {i: 1 for i in self.order}

    def id_of(self, o):
        return self._ids.get(id(o))

    def is_destroyed(self, i):
        return bool(getattr(self.subs[i], "measured", False))

    def containers(self):
        from photon_weave.state.composite_envelope import CompositeEnvelope

        out, seen = [], set()
        for h in self.prog.handles:
            c = CompositeEnvelope._containers.get(h.uid)
            if c is not None and id(c) not in seen:
                seen.add(id(c))
                out.append(c)
        return out


def blockwise_err(project, wa, wb):
    """Fallback when the joint space is too large for a dense matrix: the two worlds must hold the same
    storage blocks (same members, same order) and every block must carry the same reduced state.
    Weaker than comparing the joint state only if the library entangled two blocks without merging them,
    which the C02 / C20 checks decide.  Returns the largest entry-wise difference, or None if a block is
    too large itself."""
    def blocks(w):
        out = {}
        for b in project.find_blocks(w):
            if b["kind"] == "own":
                sid = b["members"][0]
                r = project.own_density(w.subs[sid], w.model_dim[sid])
                bd = [r.shape[0]]
            else:
                bd = [project._impl_dim(w, sid) for sid in b["members"]]
                if int(np.prod(bd)) > project.MAX_JOINT_DIM:
                    return None
                r = project.block_density(b["obj"].state, bd)
            out[frozenset(b["members"])] = (list(b["members"]), bd, r / np.trace(r))
        return out
    ba, bb = blocks(wa), blocks(wb)
    if ba is None or bb is None:
        return None
    if set(ba) != set(bb):
        return float("inf")
    worst = 0.0
    for key, (ma, da, ra) in ba.items():
        mb, db, rb = bb[key]
        if ma != mb:                       # same members, different tensor order: bring B to A's order
            n = len(mb)
            perm = [mb.index(x) for x in ma]
            rb = rb.reshape(db + db).transpose(perm + [n + q for q in perm])
            db = [db[q] for q in perm]
            rb = rb.reshape(int(np.prod(db)), -1)
        t = [max(x, y) for x, y in zip(da, db)]
        if int(np.prod(t)) > project.MAX_JOINT_DIM:
            return None
        worst = max(worst, float(np.max(np.abs(project.embed(ra, da, t) - project.embed(rb, db, t)))))
    return worst


def main():
    seed, nprog, nsteps, out = int(sys.argv[1]), int(sys.argv[2]), int(sys.argv[3]), sys.argv[4]
    from photon_weave.photon_weave import Config

    from harness import drivers, project, world

    drivers.PROFILE = "ctwin"
    S = world.Sampler()
    S.force = False
    S.install()
    C = Config()
    with open(out, "w") as f:
        for p in range(nprog):
            ps = seed * 100003 + p
            C.set_seed(ps)
            C.set_contraction(True)
            A = drivers.Program(random.Random(ps))
            C.set_seed(ps)
            C.set_contraction(False)
            B = drivers.Program(random.Random(ps))
            wa, wb = ProgWorld(A), ProgWorld(B)
            steps = []
            for k in range(nsteps):
                kinds = []
                for prog, flag in ((A, True), (B, False)):
                    C.set_seed(ps * 1000 + k)
                    C.set_contraction(flag)
                    prog.last_kind = None
                    prog.step()
                    kinds.append(prog.last_kind)
                rec = {"k": k, "kind": kinds[0], "same_request": kinds[0] == kinds[1]}
                try:
                    ra, la, da = project.joint_density(wa, project.MAX_JOINT_DIM)
                    rb, lb, db = project.joint_density(wb, project.MAX_JOINT_DIM)
                    if la != lb:
                        rec.update(eq=False, err=-1.0, why="different live sets")
                    else:
                        t = [max(x, y) for x, y in zip(da, db)]
                        err = float(np.max(np.abs(project.embed(ra, da, t) - project.embed(rb, db, t)))) if la else 0.0
                        rec.update(eq=bool(np.isfinite(err) and err <= TOL), err=err if np.isfinite(err) else -2.0, why="")
                except project.TooLarge:
                    try:
                        err = blockwise_err(project, wa, wb)
                    except project.Unobservable as ex:
                        err = None
                    if err is None:
                        rec.update(eq=True, err=0.0, why="unobservable: a block exceeds the dense-matrix cap")
                        steps.append(rec)
                        break                              # the cutoffs only grow: nothing more to compare in this program
                    rec.update(eq=bool(np.isfinite(err) and err <= TOL), err=err if np.isfinite(err) else -2.0, why="blockwise")
                except project.Unobservable as ex:
                    rec.update(eq=True, err=0.0, why="unobservable: " + str(ex)[:80])     # reported by C13 / C07, not here
                steps.append(rec)
                if not rec["eq"] or not rec["same_request"]:
                    break
            f.write(json.dumps({"pair": ps, "steps": steps}) + "\n")
    return 0


if __name__ == "__main__":
    sys.exit(main())

"""
C08 contraction twins: the same seeded continuous-parameter program executed in lockstep with the
automatic contraction switch ON in one world and OFF in the other (same PRNG key before every
step).  After every step the joint density operators of the two worlds are compared; the verdict
("every step equal") is taken by TLC (spec/CTwin.tla) on the recorded lines.

python -m harness.ctwins <seed> <nprograms> <nsteps> <out.ndjson>
"""
import json
import os
import random
import sys

os.environ.setdefault("PHOTON_WEAVE_VERIF", "1")
os.environ.setdefault("XLA_FLAGS", "--xla_cpu_multi_thread_eigen=false intra_op_parallelism_threads=1")
os.environ.setdefault("JAX_PLATFORMS", "cpu")

import numpy as np  # noqa: E402

TOL = 1e-5      # the library's own purity / label tolerances are 1e-6: stay an order of magnitude above


class ProgWorld:
    """world-like view of a drivers.Program for project.joint_density"""

    def __init__(self, prog):
        self.prog = prog
        self.subs = {i + 1: s for i, s in enumerate(prog.subs())}
        self.order = sorted(self.subs)
        self._ids = {id(s): i for i, s in self.subs.items()}
        self.envs = {i + 1: e for i, e in enumerate(prog.envs)}
        self.model_dim = {i: 1 for i in self.order}

    def id_of(self, o):
        return self._ids.get(id(o))

    def is_destroyed(self, i):
        return bool(getattr(self.subs[i], "measured", False))

    def containers(self):
        from photon_weave.state.composite_envelope import CompositeEnvelope

        out, seen = [], set()
        for h in self.prog.handles:
            c = CompositeEnvelope._containers.get(h.uid)
            if c is not None and id(c) not in seen:
                seen.add(id(c))
                out.append(c)
        return out


def main():
    seed, nprog, nsteps, out = int(sys.argv[1]), int(sys.argv[2]), int(sys.argv[3]), sys.argv[4]
    from photon_weave.photon_weave import Config

    from harness import drivers, project, world

    drivers.PROFILE = "ctwin"
    S = world.Sampler()
    S.force = False
    S.install()
    C = Config()
    with open(out, "w") as f:
        for p in range(nprog):
            ps = seed * 100003 + p
            C.set_seed(ps)
            C.set_contraction(True)
            A = drivers.Program(random.Random(ps))
            C.set_seed(ps)
            C.set_contraction(False)
            B = drivers.Program(random.Random(ps))
            wa, wb = ProgWorld(A), ProgWorld(B)
            steps = []
            for k in range(nsteps):
                kinds = []
                for prog, flag in ((A, True), (B, False)):
                    C.set_seed(ps * 1000 + k)
                    C.set_contraction(flag)
                    prog.last_kind = None
                    prog.step()
                    kinds.append(prog.last_kind)
                rec = {"k": k, "kind": kinds[0], "same_request": kinds[0] == kinds[1]}
                try:
                    ra, la, da = project.joint_density(wa)
                    rb, lb, db = project.joint_density(wb)
                    if la != lb:
                        rec.update(eq=False, err=-1.0, why="different live sets")
                    else:
                        t = [max(x, y) for x, y in zip(da, db)]
                        err = float(np.max(np.abs(project.embed(ra, da, t) - project.embed(rb, db, t)))) if la else 0.0
                        rec.update(eq=bool(np.isfinite(err) and err <= TOL), err=err if np.isfinite(err) else -2.0, why="")
                except project.Unobservable as ex:
                    rec.update(eq=True, err=0.0, why="unobservable: " + str(ex)[:80])     # reported by C13 / C07, not here
                steps.append(rec)
                if not rec["eq"] or not rec["same_request"]:
                    break
            f.write(json.dumps({"pair": ps, "steps": steps}) + "\n")
    return 0


if __name__ == "__main__":
    sys.exit(main())

"""Run replay workers in parallel subprocesses (one long-lived interpreter per chunk)."""
from __future__ import annotations

import json
import os
import subprocess
import sys
import tempfile
from concurrent.futures import ThreadPoolExecutor
from typing import Any, Dict, List, Tuple

from .tlcrun import OUT

HERE = os.path.dirname(os.path.abspath(__file__))
ROOT = os.path.normpath(os.path.join(HERE, ".."))
PY = "/venv/bin/python"


def replay_all(behaviours: List[List[Dict[str, Any]]], procs: int = 12, module: str = "harness.worker",
               extra_env: Dict[str, str] = {}, trace_dir: str = "") -> List[Dict[str, Any]]:
    if not behaviours:
        return []
    procs = max(1, min(procs, len(behaviours)))
    chunks: List[List[Tuple[int, Any]]] = [[] for _ in range(procs)]
    for n, b in enumerate(behaviours):
        chunks[n % procs].append((n, b))
    tmp = tempfile.mkdtemp(prefix="replay_", dir=OUT)
    env = dict(os.environ)
    env["PYTHONPATH"] = "/repo:" + ROOT
    env["PHOTON_WEAVE_VERIF"] = "1"
    env["PYTHONHASHSEED"] = "0"
    env.update(extra_env)

    def one(k: int) -> List[Dict[str, Any]]:
        src = os.path.join(tmp, f"in{k}.json")
        dst = os.path.join(tmp, f"out{k}.json")
        job = {"behaviours": chunks[k]}
        if trace_dir:
            job["trace_file"] = os.path.join(trace_dir, f"trace{k}.ndjson")
        json.dump(job, open(src, "w"))
        p = subprocess.run([PY, "-m", module, src, dst], cwd=ROOT, env=env, capture_output=True, text=True)
        if p.returncode != 0 or not os.path.exists(dst):
            raise RuntimeError(f"replay worker {k} failed (rc={p.returncode}):\n{p.stderr[-3000:]}")
        return json.load(open(dst))

    with ThreadPoolExecutor(max_workers=procs) as ex:
        res = [r for part in ex.map(one, range(procs)) for r in part]
    import shutil

    shutil.rmtree(tmp, ignore_errors=True)
    res.sort(key=lambda r: r["n"])
    return res

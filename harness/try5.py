import sys, json
from harness import tlcrun, pool
from harness.check import stratified
cfg, n, seed = sys.argv[1], int(sys.argv[2]), int(sys.argv[3])
rc,out = tlcrun.tlc("MC", cfg, ["-workers","8"], timeout=3000)
tr = tlcrun.parse_traces(out)
pick = stratified(tr, n, seed)
res = pool.replay_all(pick, procs=12)
k=0
for r,b in zip(res,pick):
    for v in r["viol"]:
        if k<6:
            print(v["props"], v["kind"], v["a"], v["en"], v["g"], v["cell"], v["detail"][:150])
            json.dump({"violation":v,"behaviour":b[:v["step"]+1]}, open(f"out/try5_{k}.json","w"))
            k+=1
print(len(tr), len(pick), sum(1 for r in res if r["viol"]))

"""
Projection of the implementation's object graph onto the abstract state of the specification.

Two projections:

* ``joint_density(world)``: the density operator of all live subsystems in the canonical
  (creation) order, rebuilt from wherever the library currently stores the amplitudes
  (own ``state``, ``Envelope.state`` + member ``index``, ``ProductState.state`` +
  ``state_objs`` order).  This is the observable the physics properties talk about.
* ``bookkeeping(world)``: the small, purely structural record (indices, levels, shapes, block
  membership, registries, numeric flags) that the TLA+ contract (PWContract/PWTrace) judges.

Nothing here decides a property: the functions observe; verdicts are taken by the comparators
against TLC's expectations and by the TLA+ clauses.
"""

from __future__ import annotations

import hashlib
from typing import Any, Dict, List, Optional, Tuple

import numpy as np

POL_VECTORS = {
    "H": np.array([1, 0], dtype=complex),
    "V": np.array([0, 1], dtype=complex),
    "R": np.array([1, 1j], dtype=complex) / np.sqrt(2),
    "L": np.array([1, -1j], dtype=complex) / np.sqrt(2),
}


class Unobservable(Exception):
    """The bookkeeping is too broken to rebuild the joint state (reported under C13/C07)."""


def _np(x: Any) -> np.ndarray:
    return np.asarray(x)


def level_tag(x: Any) -> str:
    if x is None:
        return "-"
    try:
        v = int(x)
    except Exception:
        return "?"
    return {0: "L", 1: "V", 2: "M"}.get(v, "?")


def repr_kind(state: Any, dim_hint: Optional[int] = None) -> Tuple[str, Tuple[int, ...]]:
    """Classify what a ``state`` attribute holds: none / int label / enum label / column vector
    / square matrix / other."""
    from enum import Enum

    if state is None:
        return "none", ()
    if isinstance(state, bool):
        return "other", ()
    if isinstance(state, (int, np.integer)):
        return "int", ()
    if isinstance(state, Enum):
        return "enum", ()
    try:
        shape = tuple(int(s) for s in state.shape)
    except Exception:
        return "other", ()
    if len(shape) == 2 and shape[1] == 1:
        return "vec", shape
    if len(shape) == 2 and shape[0] == shape[1]:
        return "mat", shape
    if len(shape) == 0:
        return "scalar", shape
    return "other", shape


def own_density(sub: Any, model_dim: int) -> np.ndarray:
    """Density matrix of a subsystem that holds its own state (label, vector or matrix)."""
    kind, shape = repr_kind(sub.state)
    if kind == "int":
        d = max(int(getattr(sub, "dimensions", -1) or -1), model_dim, int(sub.state) + 1)
        v = np.zeros(d, dtype=complex)
        v[int(sub.state)] = 1
        return np.outer(v, v.conj())
    if kind == "enum":
        v = POL_VECTORS[sub.state.value]
        return np.outer(v, v.conj())
    if kind == "vec":
        v = _np(sub.state).astype(complex).reshape(-1)
        return np.outer(v, v.conj())
    if kind == "mat":
        return _np(sub.state).astype(complex)
    raise Unobservable(f"subsystem {sub!r:.40} holds an unreadable state of kind {kind}")


def block_density(state: Any, dims: List[int]) -> np.ndarray:
    d = int(np.prod(dims))
    kind, shape = repr_kind(state)
    if kind == "vec":
        if shape[0] != d:
            raise Unobservable(f"vector of length {shape[0]} for member dimensions {dims}")
        v = _np(state).astype(complex).reshape(-1)
        return np.outer(v, v.conj())
    if kind == "mat":
        if shape[0] != d:
            raise Unobservable(f"matrix of size {shape[0]} for member dimensions {dims}")
        return _np(state).astype(complex)
    raise Unobservable(f"block state of kind {kind} shape {shape} for member dimensions {dims}")


def find_blocks(world: Any) -> List[Dict[str, Any]]:
    """Locate every live subsystem's amplitudes.  Returns blocks
    ``{kind: own|env|ps, members: [sub ids in tensor order], obj: holder}``.
    Membership is found by object identity, independently of the ``index`` attributes (whose
    truthfulness is C13's business)."""
    blocks: List[Dict[str, Any]] = []
    placed: Dict[int, int] = {}
    subs = world.subs  # id -> object
    live = [sid for sid in world.order if not world.is_destroyed(sid)]
    # product spaces of every container reachable from the handles the harness holds
    seen_ps = set()
    for cont in world.containers():
        for ps in list(cont.states):
            if id(ps) in seen_ps:
                continue
            seen_ps.add(id(ps))
            mem = []
            for so in ps.state_objs:
                sid = world.id_of(so)
                if sid is None:
                    raise Unobservable("product space lists an object the harness did not create")
                mem.append(sid)
            if mem:
                blocks.append({"kind": "ps", "members": mem, "obj": ps})
    for eid, env in world.envs.items():
        if getattr(env, "state", None) is not None:
            f, p = env.fock, env.polarization
            fi, pi = getattr(f, "index", None), getattr(p, "index", None)
            if not (isinstance(fi, int) and isinstance(pi, int) and {fi, pi} == {0, 1}):
                raise Unobservable(f"envelope {eid} holds a state but member indices are {fi!r},{pi!r}")
            mem = [None, None]
            mem[fi] = world.id_of(f)
            mem[pi] = world.id_of(p)
            blocks.append({"kind": "env", "members": mem, "obj": env})
    for b in blocks:
        for sid in b["members"]:
            placed[sid] = placed.get(sid, 0) + 1
    for sid in live:
        s = subs[sid]
        if s.state is not None:
            placed[sid] = placed.get(sid, 0) + 1
            blocks.append({"kind": "own", "members": [sid], "obj": s})
    for sid in live:
        if placed.get(sid, 0) != 1:
            raise Unobservable(f"live subsystem {sid} is stored in {placed.get(sid, 0)} places")
    for sid, n in placed.items():
        if world.is_destroyed(sid):
            raise Unobservable(f"destroyed subsystem {sid} is still stored in a block")
    return blocks


def _impl_dim(world: Any, sid: str) -> int:
    s = world.subs[sid]
    d = int(getattr(s, "dimensions", -1))
    return d


class TooLarge(Unobservable):
    """the joint space is larger than the harness is willing to build a dense matrix for"""


MAX_JOINT_DIM = 2048


def joint_density(world: Any, max_dim: Optional[int] = None) -> Tuple[np.ndarray, List[str], List[int]]:
    """Density operator of all live subsystems, canonical order, every Fock factor brought to
    ``max(model dim, implementation dim)`` by zero padding.  Each block is normalised to unit
    trace before tensoring (normalisation itself is judged by the C07 clauses, not here)."""
    blocks = find_blocks(world)
    live = [sid for sid in world.order if not world.is_destroyed(sid)]
    if not live:
        return np.ones((1, 1), dtype=complex), [], []
    facs: List[str] = []
    dims: List[int] = []
    rho = np.ones((1, 1), dtype=complex)
    for b in blocks:
        if b["kind"] == "own":
            sid = b["members"][0]
            r = own_density(world.subs[sid], world.model_dim[sid])
            bd = [r.shape[0]]
        else:
            bd = [_impl_dim(world, sid) for sid in b["members"]]
            if any(d < 1 for d in bd):
                raise Unobservable(f"block member reports dimension {bd}")
            r = block_density(b["obj"].state, bd)
        tr = np.trace(r)
        if not np.isfinite(tr) or abs(tr) < 1e-12:
            raise Unobservable(f"block {b['members']} has trace {tr}")
        r = r / tr
        if max_dim is not None and rho.shape[0] * r.shape[0] > max_dim:
            raise TooLarge(f"joint dimension exceeds {max_dim}")
        rho = np.kron(rho, r)
        facs.extend(b["members"])
        dims.extend(bd)
    n = len(facs)
    t = rho.reshape(dims + dims)
    perm = [facs.index(sid) for sid in live]
    t = t.transpose(perm + [n + p for p in perm])
    dims = [dims[p] for p in perm]
    # pad / check every factor against the model dimension
    target = [max(dims[i], world.model_dim[live[i]]) for i in range(n)]
    pad = [(0, target[i] - dims[i]) for i in range(n)]
    t = np.pad(t, pad + pad)
    D = int(np.prod(target))
    return t.reshape(D, D), live, target


def embed(rho: np.ndarray, dims: List[int], target: List[int]) -> np.ndarray:
    n = len(dims)
    t = rho.reshape(dims + dims)
    pad = [(0, target[i] - dims[i]) for i in range(n)]
    t = np.pad(t, pad + pad)
    D = int(np.prod(target))
    return t.reshape(D, D)


def partial_trace(rho: np.ndarray, dims: List[int], keep: List[int]) -> np.ndarray:
    """Reduced state on the factors ``keep`` (positions), in the order of ``keep``."""
    n = len(dims)
    t = rho.reshape(dims + dims)
    drop = [i for i in range(n) if i not in keep]
    # trace out dropped factors one by one (from the back so that positions stay valid)
    cur = list(range(n))
    for i in sorted(drop, reverse=True):
        p = cur.index(i)
        m = len(cur)
        t = np.trace(t, axis1=p, axis2=m + p)
        cur.remove(i)
    m = len(cur)
    perm = [cur.index(i) for i in keep]
    t = t.transpose(perm + [m + p for p in perm])
    d = int(np.prod([dims[i] for i in keep])) if keep else 1
    return t.reshape(d, d)


def digest(x: Any) -> str:
    if x is None:
        return "none"
    kind, shape = repr_kind(x)
    if kind in ("int",):
        return f"int:{int(x)}"
    if kind == "enum":
        return f"enum:{x.value}"
    a = np.ascontiguousarray(_np(x))
    return hashlib.sha256(str(a.dtype).encode() + str(a.shape).encode() + a.tobytes()).hexdigest()[:16]


def numeric_flags(state: Any) -> Dict[str, bool]:
    """Observed numeric facts about a stored array (the TLA+ clause NumericOK decides which of
    them are required)."""
    kind, shape = repr_kind(state)
    out = {"finite": True, "unit": True, "herm": True, "psd": True}
    if kind == "vec":
        v = _np(state).astype(complex).reshape(-1)
        out["finite"] = bool(np.all(np.isfinite(v)))
        out["unit"] = bool(out["finite"] and abs(np.vdot(v, v).real - 1) < 1e-8)
    elif kind == "mat":
        m = _np(state).astype(complex)
        out["finite"] = bool(np.all(np.isfinite(m)))
        if out["finite"]:
            out["unit"] = bool(abs(np.trace(m) - 1) < 1e-8)
            out["herm"] = bool(np.allclose(m, m.conj().T, atol=1e-8))
            if out["herm"]:
                w = np.linalg.eigvalsh((m + m.conj().T) / 2)
                out["psd"] = bool(w.min() >= -1e-8)
            else:
                out["psd"] = False
        else:
            out["unit"] = out["herm"] = out["psd"] = False
    return out

"""
Deterministic scenario grids for requests outside the exact lattice, recorded through the tracer and judged by
TLC (PWContract.tla: CutoffAdequate, ChannelMatchesModel, plus every structural clause).

  python -m harness.grid cut   <part> <nparts> <out.ndjson> [<thin> <seed>]      (thin: every thin-th scenario, offset seed)
      automatic Fock cutoffs: Displace / Squeeze x operand state (number states, weakly and equally weighted
      superpositions, mixtures, entangled) x storage (own / combined envelope / composite product space) x level,
      each Operation OBJECT applied to the operand states one after the other, in both orders (C10, C15)
  python -m harness.grid kraus <part> <nparts> <out.ndjson>
      channels: target kind x storage x level x entry point x strength (from 2e-6, around the library's purity
      thresholds, to strong) x contraction switch (C06, C08)
"""
from __future__ import annotations

import cmath
import math
import os
import sys
from typing import Any, List

os.environ.setdefault("PHOTON_WEAVE_VERIF", "1")
os.environ.setdefault("XLA_FLAGS", "--xla_cpu_multi_thread_eigen=false intra_op_parallelism_threads=1")
os.environ.setdefault("JAX_PLATFORMS", "cpu")

import numpy as np  # noqa: E402


def _rot(d: int, i: int, j: int, th: float) -> np.ndarray:
    m = np.eye(d, dtype=complex)
    m[i, i] = m[j, j] = math.cos(th)
    m[i, j] = -math.sin(th)
    m[j, i] = math.sin(th)
    return m


def _unitary(d: int, tag: int) -> np.ndarray:
    rng = np.random.default_rng(77 * d + tag)
    m = rng.normal(size=(d, d)) + 1j * rng.normal(size=(d, d))
    q, r = np.linalg.qr(m)
    return q * (np.diag(r) / np.abs(np.diag(r)))


class Lab:
    def __init__(self) -> None:
        import jax.numpy as jnp

        from photon_weave.operation import (CompositeOperationType, CustomStateOperationType, FockOperationType,
                                            Operation, PolarizationOperationType)
        from photon_weave.photon_weave import Config
        from photon_weave.state.composite_envelope import CompositeEnvelope
        from photon_weave.state.custom_state import CustomState
        from photon_weave.state.envelope import Envelope
        from photon_weave.state.polarization import Polarization, PolarizationLabel

        self.jnp, self.Op, self.F, self.P, self.C, self.CS = jnp, Operation, FockOperationType, PolarizationOperationType, \
            CompositeOperationType, CustomStateOperationType
        self.Config, self.CE, self.Custom, self.Env, self.Pol, self.PL = Config, CompositeEnvelope, CustomState, Envelope, \
            Polarization, PolarizationLabel

    # ---------------------------------------------------------------- operand states of a Fock space
    def fock_state(self, env: Any, kind: str) -> None:
        """prepare env.fock through the public API (top level n, different distributions)"""
        f, jnp = env.fock, self.jnp
        n = int(kind[1]) if kind[1].isdigit() else 0
        if kind[0] == "n":                      # number state |n>
            f.state = n
            return
        f.resize(n + 1)
        if kind[0] == "w":                      # sqrt(1 - eps^2)|0> + eps|n>: same top level as |n>, nearly the vacuum
            f.apply_operation(self.Op(self.F.Custom, operator=jnp.array(_rot(n + 1, 0, n, 1e-4))))
        elif kind[0] == "s":                    # (|0> + |n>)/sqrt2
            f.apply_operation(self.Op(self.F.Custom, operator=jnp.array(_rot(n + 1, 0, n, math.pi / 4))))
        elif kind[0] == "m":                    # equal mixture of |0> and |n>
            f.apply_operation(self.Op(self.F.Custom, operator=jnp.array(_rot(n + 1, 0, n, math.pi / 4))))
            par = np.diag([1.0 if k == 0 else -1.0 for k in range(n + 1)]).astype(complex)
            f.apply_kraus([jnp.array(np.sqrt(0.5) * np.eye(n + 1, dtype=complex)), jnp.array(np.sqrt(0.5) * par)])

    def place(self, env: Any, storage: str, level: str) -> Any:
        """bring env.fock into the requested storage / level; returns the composite envelope (or None)"""
        ce = None
        if storage == "env":
            env.combine()
        elif storage in ("ps", "psent"):
            other = self.Env(polarization=self.Pol(self.PL.R))
            other.fock.state = 1
            ce = self.CE(env, other)
            ce.combine(env.fock, other.polarization)
            if storage == "psent":              # entangle the Fock space with another one: its reduced state is mixed
                ce.apply_operation(self.Op(self.C.NonPolarizingBeamSplitter, eta=0.6), env.fock, other.fock)
        if level == "M":
            env.fock.expand()
            env.fock.expand()
        return ce


def run_cut(part: int, nparts: int, thin: int = 1, seed: int = 0) -> None:
    from . import tracer

    L = Lab()
    ops = [("Displace", dict(alpha=0.5 + 0j)), ("Displace", dict(alpha=-1.2 + 0j)), ("Displace", dict(alpha=2j)),
           ("Displace", dict(alpha=1.5 * cmath.exp(2.3j))), ("Squeeze", dict(zeta=0.3 + 0j)), ("Squeeze", dict(zeta=-0.6 + 0j)),
           ("Squeeze", dict(zeta=0.5j))]
    seqs = [["w3", "n3", "s3", "m3"], ["n3", "w3"], ["w5", "n5"], ["n0", "n1", "n2"], ["s2", "n2", "m2"], ["m3", "n3"]]
    places = [("own", "V"), ("own", "M"), ("env", "V"), ("env", "M"), ("ps", "V"), ("psent", "V"), ("psent", "M")]
    cases = [(o, s, pl, en, c) for o in range(len(ops)) for s in range(len(seqs)) for pl in places
             for en in ("sub", "env", "ce") for c in (True, False)]
    # a rotating selection keeps the grid affordable: every (op, sequence) with two (place, entry, switch) combinations
    picked = [cs for k, cs in enumerate(cases) if (k * 7 + cs[0] + 3 * cs[1]) % 21 == 0]
    picked = [cs for k, cs in enumerate(picked) if k % thin == seed % thin]
    tid = 0
    for k, (o, s, (storage, level), en, contr) in enumerate(picked):
        if k % nparts != part:
            continue
        tid = 900000 + k
        tracer.new_trace(tid)
        L.Config().set_seed(k)
        L.Config().set_contraction(contr)
        name, kw = ops[o]
        op = L.Op(getattr(L.F, name), **kw)          # ONE object for the whole sequence of operands
        for st in seqs[s]:
            env = L.Env()
            try:
                L.fock_state(env, st)
                ce = L.place(env, storage, level)
                if en == "env":
                    env.apply_operation(op, env.fock)
                elif en == "ce" and ce is not None:
                    ce.apply_operation(op, env.fock)
                else:
                    env.fock.apply_operation(op)
            except Exception:  # noqa: BLE001   judged from the trace
                pass


def run_kraus(part: int, nparts: int, thin: int = 1, seed: int = 0) -> None:
    from . import tracer

    L = Lab()
    jnp = L.jnp
    strengths = [2e-6, 5e-6, 2e-5, 1e-3, 0.3]
    cases = [(t, st, lv, en, p, c) for t in ("P", "F", "C") for st in ("own", "env", "ps") for lv in ("V", "M")
             for en in ("sub", "env", "ce") for p in strengths for c in (True, False)]
    cases = [cs for k, cs in enumerate(cases) if k % thin == seed % thin]
    for k, (t, storage, level, en, p, contr) in enumerate(cases):
        if k % nparts != part:
            continue
        if t == "C" and storage == "env":
            continue
        tracer.new_trace(800000 + k)
        L.Config().set_seed(k)
        L.Config().set_contraction(contr)
        try:
            env = L.Env(polarization=L.Pol(L.PL.R))
            env.fock.state = 1
            env.fock.resize(3)
            cus = L.Custom(3)
            cus.apply_operation(L.Op(L.CS.Custom, operator=jnp.array(_unitary(3, 1))))
            ce = None
            if storage == "env":
                env.combine()
            if storage == "ps" or en == "ce":
                ce = L.CE(env, cus)
            if storage == "ps":
                ce.combine(env.polarization, cus) if t != "F" else ce.combine(env.fock, cus)
            target = {"P": env.polarization, "F": env.fock, "C": cus}[t]
            if level == "M":
                target.expand()
                target.expand()
            d = target.dimensions
            ks = [np.sqrt(1 - p) * np.eye(d, dtype=complex), np.sqrt(p) * _unitary(d, 2)]
            ks = [jnp.array(x) for x in ks]
            if en == "env" and t != "C":
                env.apply_kraus(ks, target)
            elif en == "ce" and ce is not None:
                ce.apply_kraus(ks, target)
            else:
                target.apply_kraus(ks)
            # afterwards the state is used again: a wrong post-state also shows in the next operation / the reduced state
            if t == "P":
                target.apply_operation(L.Op(L.P.H))
        except Exception:  # noqa: BLE001
            pass


def main() -> int:
    kind, part, nparts, path = sys.argv[1], int(sys.argv[2]), int(sys.argv[3]), sys.argv[4]
    from . import tracer, world

    sink = open(path, "w")
    S = world.Sampler()
    S.force = False
    S.install()
    tracer.install(sink)
    thin = int(sys.argv[5]) if len(sys.argv) > 5 else 1
    seed = int(sys.argv[6]) if len(sys.argv) > 6 else 0
    {"cut": run_cut, "kraus": run_kraus}[kind](part, nparts, thin, seed)
    sink.close()
    return 0


if __name__ == "__main__":
    sys.exit(main())

"""Replay worker: ``python -m harness.worker in.json out.json`` replays a list of behaviours."""
import json
import os
import sys

os.environ.setdefault("PHOTON_WEAVE_VERIF", "1")
os.environ.setdefault("XLA_FLAGS", "--xla_cpu_multi_thread_eigen=false intra_op_parallelism_threads=1")
os.environ.setdefault("JAX_PLATFORMS", "cpu")


def main() -> int:
    src, dst = sys.argv[1], sys.argv[2]
    job = json.load(open(src))
    from harness import replay, world

    S = world.Sampler()
    S.install()
    R = replay.Replayer(world, S)
    out = []
    tf = job.get("trace_file")
    sink = None
    if tf:
        from harness import tracer

        sink = open(tf, "w")
        tracer.install(sink)
    for n, beh in job["behaviours"]:
        if sink is not None:
            tracer.new_trace(n)
        try:
            r = R.run(beh)
            out.append({"n": n, "nsteps": r["nsteps"], "viol": r["viol"], "aborted": r["aborted"],
                        "cells": r["cells"], "len": len(beh) - 1})
        except Exception as ex:  # harness failure: reported as machinery error, never as a pass
            import traceback

            out.append({"n": n, "nsteps": 0, "viol": [], "aborted": None, "cells": [], "len": len(beh) - 1,
                        "harness_error": f"{type(ex).__name__}: {ex}\n{traceback.format_exc()[-1500:]}"})
    if sink is not None:
        sink.close()
    json.dump(out, open(dst, "w"))
    return 0


if __name__ == "__main__":
    sys.exit(main())

import sys, time, json, os
from harness import tlcrun, configs, pool
os.makedirs("out/tr", exist_ok=True)
cfg = configs.make_cfg("try3.cfg", "U1", 9, True, "Fam_All")
traces, st = tlcrun.simulate("MC", cfg, num=24, depth=9, seed=5, procs=8)
t0=time.time()
res = pool.replay_all(traces, procs=4, trace_dir=os.path.abspath("out/tr"))
print("replayed", len(res), time.time()-t0, sum(1 for r in res if not r["viol"]))
for r in res:
    if r.get("harness_error"): print(r["harness_error"]); break

import sys, time, json
from harness import tlcrun, configs
u, fam, scripts, focus, depth = sys.argv[1:6]
cfg = configs.make_cfg(f"try4_{u}.cfg", u, int(depth), False, fam, scripts=scripts, focus=focus, cover=True, init=u+"_ExInit")
t0=time.time()
rc,out = tlcrun.tlc("MC", cfg, ["-workers","8"], timeout=3000)
print(time.time()-t0, len(out))
err = tlcrun.failed(out)
print("err", err)
tr = tlcrun.parse_traces(out)
print("traces", len(tr), tlcrun.parse_stats(out))
from collections import Counter
print(Counter((t[-1]["a"], t[-1].get("en")) for t in tr).most_common(12))
print(Counter(len(t) for t in tr))

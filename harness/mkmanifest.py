"""Writes /verif/MANIFEST.json from the table below (run after changing the set of checks)."""
import json
import os
import subprocess

ROOT = os.path.normpath(os.path.join(os.path.dirname(os.path.abspath(__file__)), ".."))

REPLAY_TECH = ("TLA+ specification PW.tla (exact Z[i,sqrt2] ensemble semantics of every public call) model-checked "
               "exhaustively by TLC; TLC-generated behaviours replayed into the real library with forced measurement "
               "outcomes (joint density, probability vectors, outcome dictionaries, rejections compared with the "
               "specification's exact expectations); recorded executions trace-validated by TLC against PWContract.tla")
TRACE_TECH = ("TLA+ structural contract PWContract.tla evaluated by TLC (PWTrace.tla) on every line of executions recorded "
              "from the real library (replayed TLC behaviours, random continuous-parameter programs, repository test-suite); "
              "partition/retirement design invariants model-checked on PW.tla")

CHECKS = {
    "C01": ("model_checking", REPLAY_TECH, "5/C01",
            "every single- and multi-subsystem operation of the lattice, at three entry points, on every storage layout and "
            "level the behaviours reach (alone / envelope block / composite block, label / vector / matrix, pure, mixed, "
            "entangled), compared with the exact joint state after every call",
            "lattice parameters only (angles k*pi/4, Fock occupancy <= 2); Displace/Squeeze covered structurally by C07/C10"),
    "C02": ("model_checking", REPLAY_TECH, "5/C02",
            "structural calls are stuttering steps of the specification's joint state (TLC action property "
            "StructuralKeepsPhysics); replay compares the joint density after every combine/reorder/merge/trace_out and the "
            "returned reduced state with the exact partial trace in the requested order; clause StructuralKeepsJoint on traces",
            "<= 3 envelopes + 1 custom state per universe"),
    "C03": ("model_checking", REPLAY_TECH, "5/C03",
            "CNOT, CZ, SWAP, CSWAP, beam splitter and Kronecker expressions over mixed operand kinds on every ordered operand "
            "tuple within a composite, from every reachable prior layout, compared with the exact joint state",
            "k <= 3 operands"),
    "C04": ("model_checking", REPLAY_TECH, "5/C04",
            "the probability vector handed to the sampler at every draw is compared with the conditional distribution derived "
            "from the specification's exact joint weight table; every non-zero outcome branch is a TLC successor and is forced",
            "computational-basis measurement on lattice states; no sampling statistics involved"),
    "C05": ("model_checking", REPLAY_TECH, "5/C05",
            "post-measurement joint state per forced branch, outcome-dictionary keys by object identity, measured flags, "
            "errors on later use of destroyed subsystems (Invalid actions), re-measurement determinism (TLC action property "
            "MeasureProps), clauses MeasuredGone / OutcomeKeys / OnlyMeasurementDestroys / DestroyedRejected on all traces",
            "as C04"),
    "C06": ("model_checking", REPLAY_TECH, "5/C06",
            "Kraus sets of 1-4 operators on 1-2 subsystems (bit flip, dephasing, amplitude damping, loss, correlated and "
            "asymmetric two-subsystem sets, single unitaries) at three entry points; exact sum K rho K^dagger as an ensemble. "
            "Off the lattice (random and very weak channels, strengths 2e-6 .. 0.3, every target kind x storage x level x entry "
            "point x contraction switch): the same rule evaluated in float64 on the joint state recorded before the call, "
            "deviation logged in units of 1e-9 and judged by TLC (clause ChannelMatchesModel of PWContract.tla)",
            "lattice channels exactly (targets <= 2); off-lattice channels to 1e-5 on joint spaces of dimension <= 600"),
    "C07": ("model_checking", TRACE_TECH, "5/C07",
            "TagMatchesRepr, ShapeIsProduct, MembersShareLevel, NumericOK evaluated by TLC on the projection after every "
            "recorded call, including continuous-parameter programs (Displace, Squeeze, random unitaries / channels / POVMs)",
            "numeric flags computed in float64 with tolerance 1e-8"),
    "C08": ("model_checking", REPLAY_TECH, "5/C08",
            "expand / contract / set_contraction are stuttering steps of the joint state; replay compares the joint density "
            "after each of them (complex lattice vectors make a missing conjugate visible) and runs every behaviour with "
            "TLC-chosen contraction toggles; a contraction that is not allowed shows as a changed joint state",
            "purity gaps of the lattice are >= 1/8: tolerance behaviour of the purity test near 1 is not decided"),
    "C09": ("model_checking", REPLAY_TECH, "5/C09",
            "projective and non-projective POVM sets on 1-2 targets, destructive and not, at three entry points: intercepted "
            "probability vector vs exact Tr(M rho M^dagger), returned index, joint state, measured flags; partner handling is "
            "an open choice of the specification (both branches are behaviours)",
            "lattice POVM sets; targets <= 2"),
    "C10": ("model_checking", REPLAY_TECH, "5/C10",
            "resize at three entry points for n in 0..Dim+1: return value TRUE iff n exceeds the highest occupied level "
            "(computed exactly in the specification), dimension after success, joint state unchanged; ladder / phase / "
            "beam-splitter operations lose no population (joint density equal after zero padding); clause ResizeReturn. "
            "Automatic cutoff of Displace / Squeeze: on continuous-parameter programs and on a scenario grid (operand states "
            "x parameters incl. negative / complex x storage x level x entry point, one Operation object applied to a "
            "sequence of operands) the harness evaluates U = exp(generator of Gates.tla) 60 levels above the chosen cutoff "
            "on the reduced state recorded before the call and logs the population beyond the cutoff and the entry-wise "
            "deviation; TLC judges them (clause CutoffAdequate: tail <= 1e-5, ten times the documented 1e-6, deviation <= 3e-3)",
            "Expresion-type Fock operations and |alpha| > 2, |zeta| > 0.8 are not explored; the ideal result is itself a "
            "float64 computation at cutoff + 60"),
    "C11": ("model_checking", REPLAY_TECH, "5/C11",
            "beam splitter defined in Gates.tla by the SU(2) mode transformation (not by expm): TLC action properties "
            "PassiveConservesNumber / PhaseConservesNumber on every transition; replay compares the joint state after each "
            "element of cascades of beam splitters and phase shifters on 2 modes (Mach-Zehnder included)",
            "eta, phi multiples of pi/4; total photon number <= 2"),
    "C13": ("model_checking", TRACE_TECH, "5/C13",
            "OneHome, IndexNamesHome, HandlesAgree, MergeUnifies, BackPointers, NoDupNoEmpty, Isolation evaluated by TLC on "
            "every recorded call; drivers build several composites per process, merge handles repeatedly, measure so that "
            "product spaces disappear",
            "histories unbounded in traces; design-level partition invariants on PW.tla"),
    "C17": ("fault_enumeration", REPLAY_TECH, "5/C17",
            "Invalid(...) actions (incomplete / wrong-size Kraus sets, wrong-size POVM and custom operators, wrong kind of "
            "operation, operand outside the composite, annihilating the vacuum, any use of a destroyed subsystem) interleaved "
            "by TLC at every point of every history; replay demands an error and the unchanged joint state, then continues",
            "kinds listed x entry points x layouts reachable in the universes"),
    "C18": ("model_checking", REPLAY_TECH, "5/C18",
            "collision-rich universes (all subsystems in the default label, identical vectors and matrices reached by the same "
            "gates): outcome dictionaries must hold one entry per object, combine/reorder/trace_out must address the named "
            "objects; compared through outcome keys and the exact joint state",
            "2-3 envelopes + custom"),
    "C20": ("model_checking", TRACE_TECH, "5/C20",
            "BystanderUntouched (bit-identical digest, same members, order, level), MergeOnlyAddressed, SingleNeverGrows, "
            "MeasuredLeaves evaluated by TLC on the pre/post partition of every recorded call",
            "partner subsystems count as addressed for measurement-type calls (partner handling is open)"),
}

NOT_APPLICABLE = [
    {"property_id": "C19", "reason": "a statement of real analysis about one stateless numeric function (adaptive quadrature of a "
     "Gaussian overlap over (-inf, inf)): no state, no transitions, no discrete case analysis for TLC to explore; a TLA+ table of "
     "closed-form values would be a numeric unit test in disguise (DESIGN.md section 6)"},
]


def main() -> None:
    repo_commits = subprocess.run(["git", "-C", "/repo", "log", "--format=%H %s"], capture_output=True, text=True).stdout
    hooks = [ln.split()[0] for ln in repo_commits.splitlines() if "verif hooks" in ln]
    checks = []
    extra = {}
    try:
        from harness.other_checks import MANIFEST_ROWS
        extra = MANIFEST_ROWS
    except Exception:
        pass
    rows = dict(CHECKS)
    rows.update(extra)
    for pid in sorted(rows):
        cat, tech, ref, text, note = rows[pid]
        checks.append({
            "property_id": pid,
            "quick_cmd": f"./check {pid} --quick",
            "thorough_cmd": f"./check {pid} --thorough",
            "evidence_file": f"/verif/evidence/{pid}.json",
            "replay_cmd_template": f"./check {pid} --replay {{path}}",
            "engine": "tlc+replay",
            "level_claimed": {"category": cat, "text": text, "design_ref": ref},
            "level_note": note,
            "technique": tech,
        })
    manifest = {
        "version": 1,
        "setup_cmd": "./setup.sh",
        "hooks": {
            "guard": "PHOTON_WEAVE_VERIF",
            "enable": "PHOTON_WEAVE_VERIF=1 in the environment of the replay / driver processes (set by ./check); "
                      "the library is imported from /repo's working tree via PYTHONPATH, nothing is built or copied",
            "baseline_off_cmd": "./baseline_off.sh",
            "source_commits": hooks,
            "add_only": True,
        },
        "engines": [
            {"name": "tlc+replay", "path": "/verif/check", "serves_properties": sorted(rows),
             "kind_free_text": "TLC (exhaustive + simulation) on spec/*.tla; behaviours replayed into /repo; recorded "
                               "executions validated by TLC (spec/PWTrace.tla)"},
        ],
        "checks": checks,
        "not_applicable": NOT_APPLICABLE,
        "notes": "All checks share one explicit TLA+ specification (spec/). known_findings.json lists genuine defects that "
                 "were recorded rather than repaired, and every defect repaired by a 'fix:' commit in /repo.",
    }
    with open(os.path.join(ROOT, "MANIFEST.json"), "w") as f:
        json.dump(manifest, f, indent=1)
    print("wrote MANIFEST.json with", len(checks), "checks")


if __name__ == "__main__":
    main()

"""What each replay-family check explores (universes, action families, sizes per tier)."""

def sim(u, num, depth, fam="Fam_All", next_="NextSim", **kw):
    d = dict(u=u, num=num, depth=depth, fam=fam, next=next_)
    d.update(kw)
    return d

def cov(u, scripts, focus, sample, fam="Fam_All", depth=1, **kw):
    d = dict(u=u, scripts=scripts, focus=focus, sample=sample, fam=fam, depth=depth)
    d.update(kw)
    return d


def covers(focus, q=(260, 200), t=(2500, 2500, 1200, 800)):
    return {"quick": [cov("U1", "U1_ScriptsQ", focus, q[0]), cov("U2", "U2_ScriptsQ", focus, q[1])],
            "thorough": [cov("U1", "U1_Scripts", focus, t[0]), cov("U2", "U2_Scripts", focus, t[1]),
                         cov("U3", "U3_Scripts", focus, t[2]), cov("U4", "U4_Scripts", focus, t[3])]}


MZI_OVER = {"PolGates": "None", "CompGates": "BS_Gates", "FockGates": "MZI_Gates", "CustomOps2": "None", "CustomOps3": "None",
            "Kraus1": "None", "Kraus2": "None"}
STRUCT = {"envcombine", "envreorder", "cecombine", "cereorder", "traceout", "newcomposite"}

REPLAY_PLANS = {
    "C01": dict(
        cover=covers("F_Op"),
        actions={"op1", "opn", "opk"},
        exhaustive={"quick": [("U1", 3, "Fam_C01")], "thorough": [("U1", 4, "Fam_C01")]},
        simulate={"quick": [sim("U1", 96, 10, "Fam_C01", "NextSim_Op"), sim("U2", 48, 10, "Fam_C01", "NextSim_Op")],
                  "thorough": [sim("U1", 800, 12, "Fam_C01", "NextSim_Op"), sim("U2", 400, 12, "Fam_C01", "NextSim_Op"),
                               sim("U3", 200, 10, "Fam_C01", "NextSim_Op")]}),
    "C02": dict(
        cover=covers("F_Struct"),
        actions=STRUCT,
        exhaustive={"quick": [("U1", 3, "Fam_C02")], "thorough": [("U1", 4, "Fam_C02")]},
        simulate={"quick": [sim("U1", 96, 10, "Fam_C02", "NextSim_Struct"), sim("U2", 48, 10, "Fam_C02", "NextSim_Struct")],
                  "thorough": [sim("U1", 800, 12, "Fam_C02", "NextSim_Struct"), sim("U2", 400, 12, "Fam_C02", "NextSim_Struct"),
                               sim("U3", 200, 12, "Fam_C02", "NextSim_Struct")]}),
    "C03": dict(
        cover=covers("F_Comp"),
        actions={"opn", "opk"},
        exhaustive={"quick": [("U4", 3, "Fam_C03")], "thorough": [("U4", 4, "Fam_C03")]},
        ex_init={"U4": "U4_ExInit"},
        simulate={"quick": [sim("U2", 64, 10, "Fam_C03", "NextSim_Comp"), sim("U3", 64, 10, "Fam_C03", "NextSim_Comp")],
                  "thorough": [sim("U2", 500, 12, "Fam_C03", "NextSim_Comp"), sim("U3", 500, 12, "Fam_C03", "NextSim_Comp"),
                               sim("U1", 200, 12, "Fam_C03", "NextSim_Comp")]}),
    "C04": dict(
        cover=covers("F_Measure"),
        actions={"measure"},
        exhaustive={"quick": [("U1", 3, "Fam_C04")], "thorough": [("U1", 4, "Fam_C04")]},
        simulate={"quick": [sim("U1", 96, 9, "Fam_C04", "NextSim_Measure"), sim("U2", 48, 9, "Fam_C04", "NextSim_Measure")],
                  "thorough": [sim("U1", 800, 11, "Fam_C04", "NextSim_Measure"), sim("U2", 400, 11, "Fam_C04", "NextSim_Measure"),
                               sim("U3", 200, 11, "Fam_C04", "NextSim_Measure")]}),
    "C05": dict(
        cover={"quick": [cov("U1", "U1_ScriptsQ", "F_Measure", 240), cov("U2", "U2_ScriptsQ", "F_Measure", 180), cov("U2", "U2_ScriptsDead", "F_MeasInv", 140)],
               "thorough": [cov("U1", "U1_Scripts", "F_Measure", 2500), cov("U2", "U2_Scripts", "F_Measure", 2500), cov("U2", "U2_ScriptsDead", "F_MeasInv", 1500),
                            cov("U3", "U3_Scripts", "F_Measure", 1200), cov("U4", "U4_Scripts", "F_Measure", 800)]},
        actions={"measure", "invalid"},
        exhaustive={"quick": [("U1", 3, "Fam_C05")], "thorough": [("U1", 4, "Fam_C05")]},
        simulate={"quick": [sim("U1", 96, 9, "Fam_C05", "NextSim_Measure"), sim("U2", 48, 9, "Fam_C05", "NextSim_Measure")],
                  "thorough": [sim("U1", 800, 11, "Fam_C05", "NextSim_Measure"), sim("U2", 400, 11, "Fam_C05", "NextSim_Measure"),
                               sim("U3", 200, 11, "Fam_C05", "NextSim_Measure")]}),
    "C06": dict(
        drivers={"quick": (24, 16, "kraus"), "thorough": (96, 24, "kraus")},
        cover=covers("F_Kraus"),
        actions={"kraus"},
        exhaustive={"quick": [("U1", 3, "Fam_C06")], "thorough": [("U1", 4, "Fam_C06")]},
        simulate={"quick": [sim("U1", 96, 10, "Fam_C06", "NextSim_Kraus"), sim("U2", 40, 9, "Fam_C06", "NextSim_Kraus")],
                  "thorough": [sim("U1", 800, 12, "Fam_C06", "NextSim_Kraus"), sim("U2", 300, 10, "Fam_C06", "NextSim_Kraus"),
                               sim("U3", 200, 10, "Fam_C06", "NextSim_Kraus")]}),
    "C08": dict(
        cover=covers("F_Contr"), ctwins={"quick": (12, 14), "thorough": (240, 30)},
        actions={"expand", "contract", "setcontraction", "op1", "kraus"},
        exhaustive={"quick": [("U1", 3, "Fam_C08")], "thorough": [("U1", 4, "Fam_C08")]},
        simulate={"quick": [sim("U1", 96, 10, "Fam_C08", "NextSim_Struct"), sim("U2", 48, 10, "Fam_C08", "NextSim_Struct")],
                  "thorough": [sim("U1", 800, 12, "Fam_C08", "NextSim_Struct"), sim("U2", 400, 12, "Fam_C08", "NextSim_Struct")]}),
    "C09": dict(
        cover=covers("F_Povm"),
        actions={"povm"},
        exhaustive={"quick": [("U1", 3, "Fam_C09")], "thorough": [("U1", 4, "Fam_C09")]},
        simulate={"quick": [sim("U1", 96, 9, "Fam_C09", "NextSim_Povm"), sim("U2", 40, 9, "Fam_C09", "NextSim_Povm")],
                  "thorough": [sim("U1", 800, 11, "Fam_C09", "NextSim_Povm"), sim("U2", 300, 10, "Fam_C09", "NextSim_Povm"),
                               sim("U3", 200, 10, "Fam_C09", "NextSim_Povm")]}),
    "C10": dict(
        drivers={"quick": (12, 10, "fock"), "thorough": (48, 16, "fock")},
        cover={"quick": [cov("U1", "U1_ScriptsQ", "F_Resize", 220), cov("U2", "U2_ScriptsQ", "F_Resize", 160), cov("U4", "U4_Scripts", "F_Resize", 200)],
               "thorough": [cov("U1", "U1_Scripts", "F_Resize", 2500), cov("U2", "U2_Scripts", "F_Resize", 2500), cov("U4", "U4_Scripts", "F_Resize", 1500),
                            cov("U3", "U3_Scripts", "F_Resize", 600)]},
        actions={"resize", "op1", "opn"},
        exhaustive={"quick": [("U1", 3, "Fam_C10")], "thorough": [("U1", 4, "Fam_C10")]},
        simulate={"quick": [sim("U1", 96, 10, "Fam_C10", "NextSim_Resize"), sim("U4", 64, 10, "Fam_C10", "NextSim_Resize")],
                  "thorough": [sim("U1", 800, 12, "Fam_C10", "NextSim_Resize"), sim("U4", 500, 12, "Fam_C10", "NextSim_Resize"),
                               sim("U2", 200, 12, "Fam_C10", "NextSim_Resize")]}),
    "C11": dict(
        cover={"quick": [cov("U4", "U4_ScriptsBS", "F_Op", 360, over={"PolGates": "None", "CompGates": "BS_Gates", "FockGates": "PS_Gates", "CustomOps2": "None", "CustomOps3": "None"}),
                         cov("U2", "U2_ScriptsQ", "F_Op", 120),
                         cov("U4", "U4_MZI", "F_Measure", 160, init="U4_MZIInit", over=MZI_OVER)],
               "thorough": [cov("U4", "U4_Scripts", "F_Op", 3000), cov("U2", "U2_Scripts", "F_Op", 2000),
                            cov("U4", "U4_MZI", "F_Measure", 4000, init="U4_MZIInit", over=MZI_OVER), cov("U4", "U4_ScriptsBS", "F_Op", 2500, over={"PolGates": "None", "CompGates": "BS_Gates", "FockGates": "PS_Gates", "CustomOps2": "None", "CustomOps3": "None"})]},
        actions={"opn", "op1", "measure"},
        exhaustive={"quick": [("U4", 3, "Fam_C11")], "thorough": [("U4", 4, "Fam_C11")]},
        ex_init={"U4": "U4_ExInit"},
        simulate={"quick": [sim("U4", 128, 10, "Fam_C11", "NextSim_Comp", over={"PolGates": "None", "CompGates": "BS_Gates", "FockGates": "PS_Gates", "CustomOps2": "None", "CustomOps3": "None"})],
                  "thorough": [sim("U4", 1000, 13, "Fam_C11", "NextSim_Comp", over={"PolGates": "None", "CompGates": "BS_Gates", "FockGates": "PS_Gates", "CustomOps2": "None", "CustomOps3": "None"}),
                               sim("U2", 300, 12, "Fam_C11", "NextSim_Comp", over={"CompGates": "BS_Gates", "FockGates": "PS_Gates"})]}),
    "C17": dict(
        cover={"quick": [cov("U1", "U1_ScriptsQ", "F_InvRes", 200), cov("U2", "U2_ScriptsQ", "F_InvRes", 120), cov("U2", "U2_ScriptsDead", "F_InvRes", 200)],
               "thorough": [cov("U1", "U1_Scripts", "F_InvRes", 2500), cov("U2", "U2_Scripts", "F_InvRes", 2000), cov("U2", "U2_ScriptsDead", "F_InvRes", 1500),
                            cov("U3", "U3_Scripts", "F_InvRes", 800)]},
        actions={"invalid", "op1", "resize"}, level="fault_enumeration",
        exhaustive={"quick": [("U1", 3, "Fam_C17")], "thorough": [("U1", 4, "Fam_C17")]},
        simulate={"quick": [sim("U1", 96, 10, "Fam_C17", "NextSim_Invalid"), sim("U2", 48, 10, "Fam_C17", "NextSim_Invalid")],
                  "thorough": [sim("U1", 800, 12, "Fam_C17", "NextSim_Invalid"), sim("U2", 400, 12, "Fam_C17", "NextSim_Invalid"),
                               sim("U3", 200, 12, "Fam_C17", "NextSim_Invalid")]}),
    "C18": dict(
        claims_actions=True,     # every subsystem shares its value with another one: any divergence here is a confusion candidate
        cover={"quick": [cov("U2", "U2_ScriptsQ", "F_Measure", 180, init="U2_Same"), cov("U2", "U2_ScriptsReg", "F_Reg", 180, init="U2_Same")],
               "thorough": [cov("U2", "U2_Scripts", "F_Measure", 2500, init="U2_Same"), cov("U2", "U2_ScriptsReg", "F_Reg", 2000, init="U2_Same"),
                            cov("U3", "U3_Scripts", "F_Measure", 1500, init="U3_Same")]},
        actions={"measure", "cecombine", "cereorder", "traceout", "opn", "opk", "op1", "povm", "kraus", "newcomposite", "resize", "envcombine", "expand", "contract"},
        exhaustive={"quick": [("U4", 3, "Fam_C18")], "thorough": [("U4", 4, "Fam_C18")]},
        ex_init={"U4": "U4_ExInit"},
        simulate={"quick": [sim("U2", 40, 9, "Fam_C18", "NextSim_Measure", init="U2_Same"), sim("U3", 40, 9, "Fam_C18", "NextSim_Measure", init="U3_Same")],
                  "thorough": [sim("U2", 500, 11, "Fam_C18", "NextSim_Measure", init="U2_Same"), sim("U3", 500, 11, "Fam_C18", "NextSim_Measure", init="U3_Same")]}),
}

REPLAY_PLANS["C15"] = dict(
    rtwins={"quick": (8, 20), "thorough": (96, 40)},
    # (the scripts use gates outside the restricted sets, so the cover runs with all operator kinds; the world still
    #  keeps ONE Operation object per (type, parameters, operand kinds))
    cover={"quick": [cov("U1", "U1_ScriptsQ", "F_Op", 200), cov("U2", "U2_ScriptsQ", "F_Op", 160),
                     cov("U4", "U4_ScriptsOps", "F_Op", 200, init="U4_OpsInit")],
           "thorough": [cov("U1", "U1_Scripts", "F_Op", 2000), cov("U2", "U2_Scripts", "F_Op", 2000),
                        cov("U4", "U4_ScriptsOps", "F_Op", 1500, ops="R", init="U4_OpsInit"), cov("U3", "U3_Scripts", "F_Op", 1000)]},
    actions={"op1", "opn", "opk"},
    env={"VERIF_REUSE_OPS": "1"}, claims_actions=True,
    exhaustive={"quick": [("U1", 3, "Fam_C01")], "thorough": [("U1", 4, "Fam_C01")]},
    simulate={"quick": [sim("U1", 72, 12, "Fam_C15", "NextSim_Comp", ops="R"), sim("U2", 48, 12, "Fam_C15", "NextSim_Comp", ops="R"),
                        sim("U3", 32, 12, "Fam_C15", "NextSim_Comp", ops="R")],
              "thorough": [sim("U1", 600, 14, "Fam_C15", "NextSim_Comp", ops="R"), sim("U2", 400, 14, "Fam_C15", "NextSim_Comp", ops="R"),
                           sim("U3", 300, 14, "Fam_C15", "NextSim_Comp", ops="R")]})


TRACE_PLANS = {
    "C07": dict(
        cover={"quick": [cov("U1", "U1_ScriptsQ", "F_Op", 200), cov("U2", "U2_ScriptsReg", "F_Reg", 100)],
               "thorough": [cov("U1", "U1_Scripts", "F_Op", 1500), cov("U2", "U2_ScriptsReg", "F_Reg", 1500)]},
        exhaustive={"quick": [("U1", 3, "Fam_All")], "thorough": [("U1", 4, "Fam_All")]},
        simulate={"quick": [sim("U1", 64, 10, "Fam_All", "NextSim_Op"), sim("U2", 32, 10, "Fam_All", "NextSim_Op")],
                  "thorough": [sim("U1", 500, 12, "Fam_All", "NextSim_Op"), sim("U2", 300, 12, "Fam_All", "NextSim_Op"),
                               sim("U3", 200, 12, "Fam_All", "NextSim_Op")]},
        drivers={"quick": (16, 18), "thorough": (240, 30)}),
    "C13": dict(
        layout={"quick": (2, 1, 2, 3), "thorough": (2, 1, 3, 4)},
        layout_faults={"quick": ["stale_handles", "refresh_before_remove"], "thorough": ["no_refresh_on_merge", "dup_on_merge", "refresh_before_remove", "stale_handles"]},
        cover={"quick": [cov("U2", "U2_ScriptsReg", "F_Reg", 520)], "thorough": [cov("U2", "U2_ScriptsReg", "F_Reg", 4000), cov("U2", "U2_ScriptsReg", "F_Reg", 1500, init="U2_Same")]},
        exhaustive={"quick": [("U4", 3, "Fam_All")], "thorough": [("U4", 4, "Fam_All")]},
        simulate={"quick": [sim("U2", 32, 11, "Fam_All", "NextSim_Struct"), sim("U3", 32, 11, "Fam_All", "NextSim_Struct")],
                  "thorough": [sim("U2", 400, 13, "Fam_All", "NextSim_Struct"), sim("U3", 400, 13, "Fam_All", "NextSim_Struct"),
                               sim("U1", 200, 12, "Fam_All", "NextSim_Struct")]},
        drivers={"quick": (16, 18), "thorough": (240, 30)}),
    "C20": dict(
        layout={"quick": (2, 1, 2, 3), "thorough": (2, 1, 3, 4)},
        layout_faults={"quick": ["stale_handles", "refresh_before_remove"], "thorough": ["no_refresh_on_merge", "dup_on_merge", "refresh_before_remove", "stale_handles"]},
        cover={"quick": [cov("U2", "U2_ScriptsReg", "F_Reg", 520)], "thorough": [cov("U2", "U2_ScriptsReg", "F_Reg", 4000), cov("U2", "U2_ScriptsReg", "F_Reg", 1500, init="U2_Same")]},
        exhaustive={"quick": [("U4", 3, "Fam_All")], "thorough": [("U4", 4, "Fam_All")]},
        simulate={"quick": [sim("U2", 32, 11, "Fam_All", "NextSim_Comp"), sim("U3", 32, 11, "Fam_All", "NextSim_Comp")],
                  "thorough": [sim("U2", 400, 13, "Fam_All", "NextSim_Comp"), sim("U3", 400, 13, "Fam_All", "NextSim_Comp"),
                               sim("U1", 200, 12, "Fam_All", "NextSim_Comp")]},
        drivers={"quick": (16, 18), "thorough": (240, 30)}),
}

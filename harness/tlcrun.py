"""Run TLC (exhaustive / simulation) and parse what it prints."""

from __future__ import annotations

import json
import os
import re
import shutil
import subprocess
import tempfile
import time
from concurrent.futures import ThreadPoolExecutor
from typing import Any, Dict, List, Optional, Tuple

HERE = os.path.dirname(os.path.abspath(__file__))
SPEC = os.path.normpath(os.path.join(HERE, "..", "spec"))
OUT = os.path.normpath(os.path.join(HERE, "..", "out"))
JAR = "/opt/veriftools/tla/tla2tools.jar"


class TLCError(Exception):
    pass


def tlc(module: str, cfg: str, args: List[str], timeout: int = 3600, cwd: Optional[str] = None,
        env: Optional[Dict[str, str]] = None) -> Tuple[int, str]:
    """Run TLC on spec/<module>.tla with spec/<cfg>; returns (exit code, stdout)."""
    os.makedirs(OUT, exist_ok=True)
    meta = tempfile.mkdtemp(prefix="tlcmeta_", dir=OUT)
    cfgp = cfg if os.path.isabs(cfg) else os.path.join(SPEC, cfg)
    cmd = ["tlc", "-metadir", meta, "-noGenerateSpecTE", "-config", cfgp, *args,
           os.path.join(SPEC, module + ".tla")]
    e = dict(os.environ)
    if env:
        e.update(env)
    try:
        p = subprocess.run(cmd, cwd=cwd or OUT, capture_output=True, text=True, timeout=timeout, env=e)
        return p.returncode, p.stdout + p.stderr
    except subprocess.TimeoutExpired as ex:
        raise TLCError(f"TLC timed out after {timeout}s: {' '.join(cmd)}") from ex
    finally:
        shutil.rmtree(meta, ignore_errors=True)


TRACE_RE = re.compile(r'^<<"TRACE", (".*")>>\s*$')


def parse_traces(out: str) -> List[List[Dict[str, Any]]]:
    traces = []
    for line in out.splitlines():
        m = TRACE_RE.match(line)
        if m:
            traces.append(json.loads(json.loads(m.group(1))))
    return traces


SCRIPTS_RE = re.compile(r'^<<"SCRIPTS", (".*")>>$', re.M)


def dead_scripts(out: str, traces: List[List[Dict[str, Any]]]) -> Tuple[int, List[Any]]:
    """(number of scripts of the run, scripts that no exported behaviour completed).  A script that the
    specification cannot follow would otherwise silently drop out of the cover."""
    m = SCRIPTS_RE.search(out)
    if not m:
        raise TLCError("the run did not print its scripts")
    scripts = json.loads(json.loads(m.group(1)))
    done = {json.dumps(b[0].get("sc", []), sort_keys=True) for b in traces}
    for m2 in re.finditer(r'^<<"SCRIPTDONE", (".*")>>$', out, re.M):
        done.add(json.dumps(json.loads(json.loads(m2.group(1))), sort_keys=True))
    return len(scripts), [s for s in scripts if s and json.dumps(s, sort_keys=True) not in done]


STATS_RE = re.compile(r"(\d+) states generated, (\d+) distinct states found")


def parse_stats(out: str) -> Dict[str, int]:
    gen = dist = 0
    for m in STATS_RE.finditer(out):
        gen, dist = int(m.group(1)), int(m.group(2))
    d = re.search(r"The depth of the complete state graph search is (\d+)", out)
    return {"generated": gen, "distinct": dist, "depth": int(d.group(1)) if d else 0}


def failed(out: str) -> Optional[str]:
    for pat in ("Error:", "Invariant .* is violated", "Action property .* is violated", "Exception"):
        m = re.search(pat + r".*", out)
        if m:
            return m.group(0)
    return None


def simulate(module: str, cfg: str, num: int, depth: int, seed: int, procs: int = 8,
             timeout: int = 1800) -> Tuple[List[List[Dict[str, Any]]], Dict[str, Any]]:
    """Generate ``num`` random behaviours of length ``depth`` with ``procs`` parallel TLC
    simulators (each single-threaded and seeded, so the result is a function of ``seed``)."""
    per = max(1, (num + procs - 1) // procs)
    t0 = time.time()

    def one(k: int) -> str:
        rc, out = tlc(module, cfg, ["-simulate", f"num={per}", "-depth", str(depth), "-workers", "1",
                                    "-seed", str(seed * 1000 + k)], timeout=timeout)
        err = failed(out)
        if err and "TRACE" not in out:
            raise TLCError(f"simulation failed: {err}\n{out[-2000:]}")
        if err:
            raise TLCError(f"simulation reported: {err}\n{out[-3000:]}")
        return out

    with ThreadPoolExecutor(max_workers=procs) as ex:
        outs = list(ex.map(one, range(procs)))
    traces: List[List[Dict[str, Any]]] = []
    states = 0
    for o in outs:
        traces.extend(parse_traces(o))
        m = re.search(r"The number of states generated: (\d+)", o)
        if m:
            states += int(m.group(1))
    return traces[:num] if len(traces) > num else traces, {"states": states, "wall_s": time.time() - t0,
                                                            "procs": procs, "per_proc": per}


def check(module: str, cfg: str, workers: int = 16, timeout: int = 3600,
          extra: List[str] = []) -> Tuple[Dict[str, int], str]:
    """Exhaustive model checking; raises TLCError on any violation or error."""
    rc, out = tlc(module, cfg, ["-workers", str(workers), *extra], timeout=timeout)
    err = failed(out)
    if err:
        raise TLCError(f"model checking failed: {err}\n{out[-4000:]}")
    if "Model checking completed" not in out:
        raise TLCError(f"model checking did not complete\n{out[-2000:]}")
    return parse_stats(out), out

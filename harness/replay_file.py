"""Replay one saved behaviour (a replay file written by a check) and print what happens."""
import json, sys, traceback
from harness import world, replay

def main(path: str) -> int:
    d = json.load(open(path))
    beh = d["behaviour"] if isinstance(d, dict) else d
    S = world.Sampler(); S.install()
    R = replay.Replayer(world, S)
    for k, rec in enumerate(beh):
        print(k, {x: rec[x] for x in rec if x not in ("post", "al", "pb", "pk", "wt", "red", "u", "pwt")})
    r = R.run(beh)
    print("steps ok:", r["nsteps"], "aborted:", r["aborted"])
    for v in r["viol"]:
        print("DIVERGENCE", json.dumps(v))
    return 1 if r["viol"] else 0

if __name__ == "__main__":
    sys.exit(main(sys.argv[1]))

"""pytest plugin: record one trace per test of the repository's suite (loaded with -p)."""
import os

_sink = None
_n = 0


def pytest_configure(config):
    global _sink
    d = os.environ.get("VERIF_TRACE_DIR")
    if not d:
        return
    from harness import tracer, world

    os.makedirs(d, exist_ok=True)
    _sink = open(os.path.join(d, f"repo_{os.getpid()}.ndjson"), "w")
    S = world.Sampler()
    S.force = False
    S.install()
    tracer.install(_sink)


def pytest_runtest_setup(item):
    global _n
    if _sink is None:
        return
    from harness import tracer

    _n += 1
    tracer.new_trace(_n)


def pytest_unconfigure(config):
    if _sink is not None:
        _sink.close()

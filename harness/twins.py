"""
C14 twin runs: the same seeded program after different histories in one process, and in a fresh
process, must observe the same outcomes, consume the same keys and end in the same states.

python -m harness.twins <seed> <npairs> <nsteps> <out.ndjson> [--child s p nsteps]
"""
import io
import json
import os
import random
import subprocess
import sys

os.environ.setdefault("PHOTON_WEAVE_VERIF", "1")
os.environ.setdefault("XLA_FLAGS", "--xla_cpu_multi_thread_eigen=false intra_op_parallelism_threads=1")
os.environ.setdefault("JAX_PLATFORMS", "cpu")


class ListSink:
    def __init__(self):
        self.lines = []

    def write(self, s):
        self.lines.append(s)


def observe(lines):
    out = []
    for ln in lines:
        r = json.loads(ln)
        ev, post = r["ev"], r["post"]
        out.append({"a": ev["a"], "entry": ev["entry"], "addr": ev["addr"], "res": ev["res"], "exc": ev["exc"],
                    "keys": ev["keys"], "ret": ev["ret"], "draws": ev["draws"],
                    "subs": [[s["id"], s["lv"], s["dim"], s["ms"], s["dg"]] for s in post["subs"]],
                    "envs": [[e["id"], e["lv"], e["dg"]] for e in post["envs"]],
                    "ps": [[p["pid"], p["lv"], p["mem"], p["dg"]] for c in post["conts"] for p in c["ps"]]})
    return out


def run_program(sink, lib_seed, prog_seed, nsteps, prefix_seed=None, prefix_steps=0):
    from photon_weave.photon_weave import Config

    from harness import drivers, tracer

    drivers.PROFILE = "measure"
    if prefix_seed is not None:
        tracer.set_enabled(False)
        Config().set_seed(prefix_seed)
        pre = drivers.Program(random.Random(prefix_seed))
        for _ in range(prefix_steps):
            pre.step()
        tracer.set_enabled(True)
    tracer.new_trace(prog_seed)
    sink.lines.clear()
    Config().set_seed(lib_seed)
    prog = drivers.Program(random.Random(prog_seed))
    for _ in range(nsteps):
        prog.step()
    return observe(list(sink.lines))


def run_behaviour(sink, lib_seed, beh, prefix_seed=None, prefix_steps=0):
    """A TLC-generated behaviour executed with the REAL sampler (nothing forced, nothing compared):
    only what it observes is recorded."""
    from photon_weave.photon_weave import Config

    from harness import drivers, tracer, world

    if prefix_seed is not None:
        tracer.set_enabled(False)
        Config().set_seed(prefix_seed)
        pre = drivers.Program(random.Random(prefix_seed))
        for _ in range(prefix_steps):
            pre.step()
        tracer.set_enabled(True)
    tracer.new_trace(lib_seed)
    sink.lines.clear()
    Config().set_seed(lib_seed)
    Config().set_contraction(True)
    init = beh[0]
    u = init["u"]
    w = world.World(u["dim"], u["kind"], u["env"], init["lv"])
    for k, rec in enumerate(beh[1:], start=1):
        w.step_no = k
        try:
            w.call(rec)
        except Exception:  # noqa: BLE001  recorded by the tracer
            pass
    return observe(list(sink.lines))


def behaviours_main(seed, src, out):
    from harness import tracer, world

    behs = json.load(open(src))
    sink = ListSink()
    S = world.Sampler()
    S.force = False
    S.install()
    tracer.install(sink)
    rng = random.Random(seed)
    with open(out, "w") as f:
        for k, beh in enumerate(behs):
            lib_seed = rng.randrange(1, 10 ** 6)
            a = run_behaviour(sink, lib_seed, beh, prefix_seed=rng.randrange(10 ** 6), prefix_steps=rng.randrange(2, 8))
            b = run_behaviour(sink, lib_seed, beh, prefix_seed=rng.randrange(10 ** 6), prefix_steps=rng.randrange(0, 4))
            c = run_behaviour(sink, lib_seed, beh)
            f.write(json.dumps({"pair": seed * 100000 + k, "seed": lib_seed, "a": a, "b": b, "c": c, "fresh": False}) + "\n")
    return 0


def child(lib_seed, prog_seed, nsteps):
    from harness import tracer, world

    sink = ListSink()
    S = world.Sampler()
    S.force = False
    S.install()
    tracer.install(sink)
    print("OBS" + json.dumps(run_program(sink, lib_seed, prog_seed, nsteps)))
    return 0


def main():
    if "--behaviours" in sys.argv:
        i = sys.argv.index("--behaviours")
        return behaviours_main(int(sys.argv[1]), sys.argv[i + 1], sys.argv[i + 2])
    if "--child" in sys.argv:
        i = sys.argv.index("--child")
        return child(int(sys.argv[i + 1]), int(sys.argv[i + 2]), int(sys.argv[i + 3]))
    seed, npairs, nsteps, out = int(sys.argv[1]), int(sys.argv[2]), int(sys.argv[3]), sys.argv[4]
    from harness import tracer, world

    sink = ListSink()
    S = world.Sampler()
    S.force = False
    S.install()
    tracer.install(sink)
    rng = random.Random(seed)
    with open(out, "w") as f:
        for k in range(npairs):
            lib_seed = rng.randrange(1, 10 ** 6)
            prog_seed = rng.randrange(1, 10 ** 6)
            a = run_program(sink, lib_seed, prog_seed, nsteps, prefix_seed=rng.randrange(10 ** 6), prefix_steps=rng.randrange(3, 12))
            b = run_program(sink, lib_seed, prog_seed, nsteps, prefix_seed=rng.randrange(10 ** 6), prefix_steps=rng.randrange(0, 6))
            c = None
            if k % 3 == 0:
                env = dict(os.environ)
                p = subprocess.run([sys.executable, "-m", "harness.twins", "0", "0", "0", "-", "--child", str(lib_seed),
                                    str(prog_seed), str(nsteps)], env=env, capture_output=True, text=True)
                for ln in p.stdout.splitlines():
                    if ln.startswith("OBS"):
                        c = json.loads(ln[3:])
            f.write(json.dumps({"pair": seed * 1000 + k, "seed": lib_seed, "a": a, "b": b, "c": c if c is not None else a,
                                "fresh": c is not None}) + "\n")
    return 0


if __name__ == "__main__":
    sys.exit(main())

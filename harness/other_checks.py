"""Checks whose state space is a finite enumeration produced by TLC: C12 (operator library),
C16 (expression interpreter), C14 (PRNG keys), C15 (operation objects)."""

from __future__ import annotations

import json
import re
import os
import subprocess
import sys
import time
from typing import Any, Dict, List, Tuple

from . import findings, tlcrun
from .tlcrun import OUT

ROOT = os.path.normpath(os.path.join(os.path.dirname(os.path.abspath(__file__)), ".."))
EVID = os.environ.get("VERIF_EVIDENCE_DIR") or os.path.join(ROOT, "evidence")     # (seed regression runs write elsewhere)
PY = "/venv/bin/python"


def _py(module: str, args: List[str], timeout: int = 3000) -> Tuple[int, str]:
    env = dict(os.environ)
    env["PYTHONPATH"] = "/repo:" + ROOT
    env["PHOTON_WEAVE_VERIF"] = "1"
    env["PYTHONHASHSEED"] = "0"
    env["JAX_PLATFORMS"] = "cpu"
    p = subprocess.run([PY, "-m", module, *args], cwd=ROOT, env=env, capture_output=True, text=True, timeout=timeout)
    return p.returncode, p.stdout + p.stderr


def _finish(pid: str, tier: str, seed: int, t0: float, level: str, coverage: Dict[str, Any], viols: List[Dict[str, Any]],
            assumptions: List[str]) -> int:
    kf = findings.load()
    known: Dict[str, int] = {}
    nviol = 0
    d = os.path.join(OUT, "replays")
    os.makedirs(d, exist_ok=True)
    seen = set()
    for v in viols:
        f = findings.classify(pid, v, kf)
        if f is not None:
            known[f["id"]] = known.get(f["id"], 0) + 1
            continue
        key = (v["kind"], v.get("a"), str(v.get("g")))
        if key in seen:
            continue
        seen.add(key)
        nviol += 1
        path = os.path.join(d, f"{pid}_{v['kind']}_{abs(hash(json.dumps(key))) % 10 ** 8}.json")
        json.dump({"property": pid, "violation": v, "case": v.get("case")}, open(path, "w"))
        print(f"VIOLATION property={pid} replay={path}")
        print(f"  {v['kind']} {v.get('a')} {v.get('g')}: {v['detail'][:300]}")
    for fid, n in sorted(known.items()):
        f = [x for x in kf if x["id"] == fid][0]
        print(f"KNOWN-FINDING: property={pid} {fid} {f['what']} (hit {n}x)")
    ev = {"property_id": pid, "tier": tier, "seed": seed, "level": level, "coverage": coverage,
          "assumptions": assumptions, "wall_s": round(time.time() - t0, 1), "violations": nviol,
          "known_findings_hit": known}
    os.makedirs(EVID, exist_ok=True)
    json.dump(ev, open(os.path.join(EVID, f"{pid}.json"), "w"), indent=1)
    print(f"{pid} {tier}: {coverage.get('evaluations')} cases, {nviol} violations, {sum(known.values())} known-finding hits, "
          f"{ev['wall_s']} s")
    return 1 if nviol else 0


# ------------------------------------------------------------------------------------ C12
def check_c12(tier: str, seed: int) -> int:
    from .check import ensure_speclib

    t0 = time.time()
    ensure_speclib()
    st, out = tlcrun.check("MC_Gates", "MC_Gates.cfg", workers=8, timeout=1200)
    if '"IDENTITIES"' not in out or '"FAILED"' in out:      # the definition itself is wrong: nothing derived from it is believed
        print("Gates.tla does not satisfy its own identities\n" + out[-3000:])
        return 2
    rc, txt = _py("harness.c12_cells", [os.path.join(OUT, "c12_result.json")])
    if rc != 0:
        print(txt[-3000:])
        return 2
    res = json.load(open(os.path.join(OUT, "c12_result.json")))
    cov = {"states": max(1, len(res["cells"])), "transitions": max(1, res["entries_compared"]),
           "traces_validated_against_impl": len(res["cells"]),
           "samples": res["cells"][:8], "exhaustive": True,
           "evaluations": len(res["cells"]), "distinct_nontrivial": len(set(c["gate"] for c in res["cells"])),
           "rule": "one cell = (operator id, parameter on the pi/4 lattice incl. negative and > 2 pi, cutoff 1..6 or operand "
                   "dimensions, source: Operation interface / raw constructor in _math/ops.py); entries compared with the "
                   "exact matrix of spec/Gates.tla whose algebraic identities (GateIdentities: unitarity, additive composition "
                   "of rotations, Clifford relations, ladder algebra, beam-splitter sectors, completeness of channels/POVMs) "
                   "TLC has checked",
           "gate_identities_checked_by_tlc": (int(re.search(r'"IDENTITIES", (\d+)', out).group(1)) if re.search(r'"IDENTITIES", (\d+)', out) else 0), "matrix_entries_compared": res["entries_compared"]}
    return _finish("C12", tier, seed, t0, "model_checking", cov, res["violations"],
                   ["lattice parameters only; displacement and squeezing matrices are not compared numerically "
                    "(transcendental entries): only unitarity on the occupied block and the vacuum statistics are observed",
                    "entries outside the exact model (Fock levels >= 3) are covered by the ladder identities a^dagger a = n, "
                    "[a, a^dagger] = 1 below the cutoff evaluated on the library's matrices"])


# ------------------------------------------------------------------------------------ C16
def check_c16(tier: str, seed: int) -> int:
    t0 = time.time()
    rc, out = tlcrun.tlc("MC_Interp", "MC_Interp.cfg", ["-workers", "1"], timeout=1200, cwd=OUT)
    if tlcrun.failed(out) or not os.path.exists(os.path.join(OUT, "interp_cases.json")):
        print(out[-3000:])
        return 2
    rc, txt = _py("harness.c16_cases", [os.path.join(OUT, "interp_cases.json"), os.path.join(OUT, "c16_result.json")])
    if rc != 0:
        print(txt[-3000:])
        return 2
    res = json.load(open(os.path.join(OUT, "c16_result.json")))
    cov = {"states": res["trees"], "transitions": res["evaluations"], "traces_validated_against_impl": res["evaluations"],
           "samples": res["samples"], "exhaustive": True, "evaluations": res["evaluations"],
           "distinct_nontrivial": res["trees"],
           "rule": "every well-typed expression tree of Interp!Cases (all commands x all leaf tuples at depth 1, binary/unary "
                   "commands over leaves and representative depth-1 trees at depth 2) x leaf kinds (context name / numpy array "
                   "/ jax array / Python number); value compared with the exact value computed by TLC, caller-owned arrays "
                   "digested before and after, unknown commands must raise"}
    return _finish("C16", tier, seed, t0, "model_checking", cov, res["violations"],
                   ["expm only on the nilpotent sub-lattice (where expm(N) = I + N exactly)",
                    "division only by matrices with unit-modulus entries"])


# ------------------------------------------------------------------------------------ C14
def check_c14(tier: str, seed: int) -> int:
    """Prng.tla (exhaustive): keys are fresh, observations are a function of (seed, program).
    Binding: (i) clause KeyFresh judged by TLC on every line of unforced executions (the real
    sampler runs, keys are logged at Config.random_key and at jax.random.choice, both must agree);
    (ii) twin executions judged by Twin.tla."""
    import re
    from concurrent.futures import ThreadPoolExecutor

    from . import tracecheck

    t0 = time.time()
    st, _ = tlcrun.check("Prng", "Prng.cfg", workers=8, timeout=600)
    apalache = []
    if tier == "thorough":
        # bounded-size inductive argument with Apalache on the unbounded key model (spec/apalache/PrngInd.tla):
        # Init => IndInv, IndInv /\ Next => IndInv', IndInv => Fresh /\ Reproducible /\ Independent, and a vacuity guard
        adir = os.path.join(ROOT, "spec", "apalache")
        for name, args, want_error in (("base", ["--init=Init", "--inv=IndInv", "--length=0"], False),
                                       ("step", ["--init=IndInit", "--inv=IndInv", "--length=1"], False),
                                       ("consequences", ["--init=IndInit", "--inv=Consequences", "--length=0"], False),
                                       ("not-vacuous", ["--init=IndInit", "--inv=NotVacuous", "--length=0"], True)):
            p = subprocess.run(["timeout", "900", "apalache-mc", "check", *args, f"--out-dir={os.path.join(OUT, 'apalache')}", "PrngInd.tla"],
                               cwd=adir, capture_output=True, text=True)
            outp = p.stdout + p.stderr
            ok = ("The outcome is: Error" in outp) if want_error else ("The outcome is: NoError" in outp)
            apalache.append(f"{name}: {'as required' if ok else 'UNEXPECTED'}")
            if not ok:
                print(outp[-1500:])
                print("MACHINERY-FAILURE property=C14: Apalache obligation '%s' did not come out as required" % name)
                return 2
    nprog, nsteps, npairs, psteps = (20, 20, 8, 14) if tier == "quick" else (320, 40, 160, 30)
    tdir = os.path.join(OUT, f"traces_C14_{tier}")
    import shutil

    shutil.rmtree(tdir, ignore_errors=True)
    os.makedirs(tdir)
    dfiles = tracecheck.run_drivers(seed, nprog, nsteps, procs=12, outdir=tdir, profile="measure")
    tfail, tstats = tracecheck.validate(dfiles, procs=12)
    viols = [v for v in tfail if "C14" in v["props"]]
    # (iii) measurement requests on prepared multi-product-space / density-matrix scenarios (scripted cover of PW.tla):
    #       replayed with forced outcomes for KeyFresh, and executed UNFORCED as twins
    from . import configs, pool
    from .check import stratified

    cfg = configs.make_cfg(f"C14_{tier}_cover.cfg", "U2", 1, False, families="Fam_All", ops="All", init="U2_ExInit",
                           scripts="U2_ScriptsQ", focus="F_Measure", cover=True)
    rc, out = tlcrun.tlc("MC", cfg, ["-workers", "8"], timeout=2400)
    if tlcrun.failed(out):
        raise tlcrun.TLCError("scripted cover generation failed:\n" + out[-1500:])
    cover = tlcrun.parse_traces(out)
    cfg2 = configs.make_cfg(f"C14_{tier}_cover2.cfg", "U2", 1, False, families="Fam_All", ops="All", init="U2_ExInit",
                            scripts="U2_ScriptsReg", focus="F_Measure", cover=True)
    rc, out = tlcrun.tlc("MC", cfg2, ["-workers", "8"], timeout=2400)
    cover += tlcrun.parse_traces(out)
    forced = stratified(cover, 200 if tier == "quick" else 3000, seed)
    cdir = os.path.join(tdir, "cover")
    os.makedirs(cdir)
    res = pool.replay_all(forced, procs=12, trace_dir=cdir)
    if any(r.get("harness_error") for r in res):
        raise RuntimeError("cover replay failed: " + [r["harness_error"] for r in res if r.get("harness_error")][0][:500])
    cfiles = sorted(os.path.join(cdir, f) for f in os.listdir(cdir) if f.endswith(".ndjson"))
    cfail, cstats = tracecheck.validate(cfiles, procs=12)
    viols += [v for v in cfail if "C14" in v["props"]]
    tstats["lines"] += cstats["lines"]
    unforced = stratified(cover, 64 if tier == "quick" else 1200, seed + 7)
    # twins
    procs = 8
    per = max(1, npairs // procs)

    def one(k: int) -> str:
        path = os.path.join(tdir, f"twins{k}.ndjson")
        rc, txt = _py("harness.twins", [str(seed * 50 + k), str(per), str(psteps), path])
        if rc != 0:
            raise RuntimeError("twin driver failed:\n" + txt[-2000:])
        return path

    def one_b(k: int) -> str:
        src = os.path.join(tdir, f"twinbeh{k}.json")
        json.dump(unforced[k::procs], open(src, "w"))
        path = os.path.join(tdir, f"twinsb{k}.ndjson")
        rc, txt = _py("harness.twins", [str(seed * 50 + k), "0", "0", "-", "--behaviours", src, path])
        if rc != 0:
            raise RuntimeError("twin behaviour driver failed:\n" + txt[-2000:])
        return path

    with ThreadPoolExecutor(max_workers=procs) as ex:
        twin_files = list(ex.map(one, range(procs))) + list(ex.map(one_b, range(procs)))
    pairs = draws = 0
    samples = []
    for p in twin_files:
        rc, out = tlcrun.tlc("Twin", "Twin.cfg", ["-workers", "1"], timeout=1200, env={"TRACE_FILE": p})
        m = re.search(r'<<"CONSUMED", (\d+)>>', out)
        if not m or "Error:" in out:
            raise tlcrun.TLCError("twin validation failed:\n" + out[-2000:])
        pairs += int(m.group(1))
        for ln in open(p):
            r = json.loads(ln)
            draws += sum(len(o["draws"]) for o in r["a"])
            if len(samples) < 3:
                samples.append({"pair": r["pair"], "library_seed": r["seed"], "fresh_process_twin": r["fresh"],
                                "events": [f"{o['a']}/{o['entry']} ret={o['ret']} draws={len(o['draws'])}" for o in r["a"]][:14]})
        for mm in re.finditer(r'<<"TWIN", (\d+), "([\w-]+)", (\d+)>>', out):
            viols.append({"kind": "TwinEqual", "a": mm.group(2), "g": None, "cell": "", "flags": {}, "en": None,
                          "case": {"pair": int(mm.group(1)), "file": p},
                          "detail": f"pair {mm.group(1)} ({mm.group(2)} twin) first differs at observation {mm.group(3)}"})
    if draws < 10:
        print("MACHINERY-FAILURE property=C14: the twin programs made almost no random decisions")
        return 2
    cov = {"states": st["distinct"] + tstats["lines"], "transitions": st["generated"] + tstats["lines"],
           "traces_validated_against_impl": pairs + nprog, "samples": samples,
           "evaluations": pairs + tstats["lines"], "distinct_nontrivial": pairs,
           "twin_pairs": pairs, "random_decisions_in_twin_programs": draws, "apalache_inductive_obligations": apalache,
           "unforced_trace_lines_judged_for_key_freshness": tstats["lines"],
           "rule": "a twin pair = one seeded random program executed after two different histories in one process (and every "
                   "third pair also in a fresh process); observations = per call: outcomes, consumed key digests, byte digests "
                   "of every stored state; pairs are distinct by (library seed, program seed)"}
    return _finish("C14", tier, seed, t0, "model_checking", cov, viols,
                   ["statistical independence of successive draws is established through key distinctness (the mechanism), "
                    "not through statistics", "bit-identical floating point results assume the deterministic CPU backend of jax"])


CHECKS = {"C12": check_c12, "C16": check_c16, "C14": check_c14}

_TECH = ("finite enumeration by TLC of an exact TLA+ definition (Gates.tla / Interp.tla), identities of the definition checked "
         "by TLC, every enumerated case replayed into the real library and compared entry-wise")
MANIFEST_ROWS = {
    "C12": ("model_checking", _TECH, "5/C12",
            "every predefined operator of the pi/4 lattice, at every cutoff 1..6, through the Operation interface and the raw "
            "constructors, compared entry-wise with the exact matrices of Gates.tla; the identities the property names are "
            "checked on Gates.tla by TLC (and, beyond the exact block, numerically on the library's own matrices)",
            "displacement / squeezing entries are outside Z[i,sqrt2] and are not compared"),
    "C14": ("model_checking",
            "TLA+ model Prng.tla (product of two runs) model-checked by TLC; clause KeyFresh of PWTrace.tla judged by TLC on "
            "every line of unforced executions; twin executions judged by Twin.tla", "5/C14",
            "keys handed to the sampler are logged at Config.random_key and at jax.random.choice: never reused between two "
            "set_seed calls; the same seeded program observed after different histories and in a fresh process yields "
            "identical outcomes, key sequences and final state digests",
            "independence via key distinctness, not statistics"),
    "C15": ("model_checking",
            "TLA+ specification PW.tla model-checked by TLC; its behaviours replayed into the real library with ONE Operation "
            "object per (type, parameters) reused for every application; clauses OpStable / OpParamsStable / "
            "UserArraysUntouched of PWTrace.tla judged by TLC on the recorded executions", "5/C15",
            "every application of a reused Operation object (to targets of different Fock dimensions, in different "
            "containers, with other operations constructed and applied in between) must give exactly the joint state the "
            "specification computes from (type, parameters) alone; descriptions of operation objects and digests of "
            "user-supplied arrays must not change; off the lattice (Displace, Squeeze, Expresion, expressions over two Fock "
            "spaces, random unitaries) twin executions -- one reused object per (type, parameters) vs a fresh object per "
            "application -- must agree after every step (judged by CTwin.tla)",
            "lattice operators; the per-object description is what harness/tracer.py projects (type, parameter digest, "
            "accepted operand types)"),
    "C16": ("model_checking", _TECH, "5/C16",
            "the interpreter is transcribed as a recursive evaluator in Interp.tla; TLC enumerates all trees to depth 2 and "
            "exports exact values; each tree is evaluated by the real interpreter with every leaf kind; inputs must be "
            "bit-identical afterwards; unknown commands must raise",
            "expm on nilpotent arguments, div by unit-entry matrices"),
}

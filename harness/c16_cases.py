"""C16: evaluate every expression tree exported by MC_Interp with the real interpreter."""
import copy
import json
import sys

import numpy as np

from harness import speclib
from harness.project import digest

TOL = 1e-9


def main() -> int:
    src, out = sys.argv[1], sys.argv[2]
    import jax.numpy as jnp

    import photon_weave.operation  # noqa: F401  (the library switches jax to 64 bit when its operators are imported)
    from photon_weave.extra.expression_interpreter import interpreter

    data = json.load(open(src))

    def value(v):
        if v["k"] == "s":
            return speclib.ring(v["v"])
        return speclib.mat(v["m"])

    leaves = {n: value(v) for n, v in data["leaves"].items()}
    kinds = ["context", "numpy", "jax", "number"]
    viols, samples = [], []
    evaluations = 0

    def build(e, kind, owned):
        if e["op"] == "leaf":
            val = leaves[e["name"]]
            if kind == "context":
                return e["name"]
            if np.isscalar(val) or isinstance(val, complex):
                return complex(val)                     # Python number
            if kind == "numpy":
                a = np.array(val, dtype=complex)
                owned.append(a)
                return a
            a = jnp.array(val)
            owned.append(a)
            return a
        return tuple([e["op"]] + [build(a, kind, owned) for a in e["args"]])

    def show(e):
        if e["op"] == "leaf":
            return e["name"]
        return [e["op"]] + [show(a) for a in e["args"]]

    ctx_arrays = {n: (jnp.array(v) if not isinstance(v, complex) else v) for n, v in leaves.items()}
    for case in data["cases"]:
        want = value(case["v"])
        for kind in kinds[:3]:
            owned = []
            expr = build(case["e"], kind, owned)
            context = {n: (lambda dims, _v=v: _v) for n, v in ctx_arrays.items()}
            before = [digest(a) for a in owned]
            cbefore = {n: digest(v) if hasattr(v, "shape") else v for n, v in ctx_arrays.items()}
            evaluations += 1
            cell = {"expr": show(case["e"]), "leaf_kind": kind}
            if len(samples) < 6 and kind == "numpy":
                samples.append(cell)
            try:
                got = interpreter(expr, context, [2])
            except Exception as ex:  # noqa: BLE001
                viols.append({"kind": "exception", "a": kind, "g": case["e"]["op"], "case": cell,
                              "detail": f"{show(case['e'])} with {kind} leaves raised {type(ex).__name__}: {str(ex)[:150]}"})
                continue
            g = np.asarray(got, dtype=complex)
            w = np.asarray(want, dtype=complex)
            if g.shape != w.shape or np.max(np.abs(g - w)) > TOL:
                viols.append({"kind": "value", "a": kind, "g": case["e"]["op"], "case": cell,
                              "detail": f"{show(case['e'])} with {kind} leaves evaluated to {np.round(g, 4).tolist()} expected {np.round(w, 4).tolist()}"})
            after = [digest(a) for a in owned]
            cafter = {n: digest(v) if hasattr(v, "shape") else v for n, v in ctx_arrays.items()}
            if before != after or cbefore != cafter:
                viols.append({"kind": "mutated", "a": kind, "g": case["e"]["op"], "case": cell,
                              "detail": f"{show(case['e'])} with {kind} leaves modified an array supplied by the caller"})
                ctx_arrays = {n: (jnp.array(v) if not isinstance(v, complex) else v) for n, v in leaves.items()}
    for bad in data.get("badcases", []):
        for kind in ("numpy", "context"):
            evaluations += 1
            owned = []
            expr = build(bad, kind, owned)
            context = {n: (lambda dims, _v=v: _v) for n, v in ctx_arrays.items()}
            cell = {"expr": show(bad), "leaf_kind": kind}
            try:
                r = interpreter(expr, context, [2])
                viols.append({"kind": "unknown_accepted", "a": kind, "g": show(bad)[0], "case": cell,
                              "detail": f"malformed expression {show(bad)} returned a value ({str(np.asarray(r).shape)}) instead of raising ValueError"})
            except ValueError:
                pass
            except Exception as ex:  # noqa: BLE001
                viols.append({"kind": "unknown_wrong_error", "a": kind, "g": show(bad)[0], "case": cell,
                              "detail": f"malformed expression {show(bad)} raised {type(ex).__name__} instead of ValueError"})
    for head in data["unknown"]:
        evaluations += 1
        try:
            r = interpreter((head, np.eye(2), np.eye(2)), {}, [2])
            viols.append({"kind": "unknown_accepted", "a": "head", "g": head, "case": {"expr": [head, "I", "I"]},
                          "detail": f"unknown command {head!r} returned {str(r)[:80]} instead of raising"})
        except ValueError:
            pass
        except Exception as ex:  # noqa: BLE001
            viols.append({"kind": "unknown_wrong_error", "a": "head", "g": head, "case": {"expr": [head, "I", "I"]},
                          "detail": f"unknown command {head!r} raised {type(ex).__name__} instead of ValueError"})
    json.dump({"trees": len(data["cases"]), "evaluations": evaluations, "violations": viols, "samples": samples}, open(out, "w"))
    print(len(data["cases"]), "trees", evaluations, "evaluations", len(viols), "violations")
    return 0


if __name__ == "__main__":
    sys.exit(main())

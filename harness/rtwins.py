"""
C15 reuse twins: the same seeded continuous-parameter program executed in lockstep in two worlds.
World A builds ONE Operation object per (type, parameters, operand types) and applies that object again
and again, to subsystems of different sizes, in different containers, with other operations constructed
and applied in between.  World B constructs a fresh Operation for every application.  C15 says the two
are indistinguishable ("always acts as if freshly constructed").  After every step the joint density
operators of the two worlds are compared (block-wise when the joint space is too large for a dense
matrix); the verdict ("every step equal") is taken by TLC (spec/CTwin.tla) on the recorded lines.

Parameters are drawn from small catalogues so that the same object recurs many times within a program,
including Displace / Squeeze / Expresion, whose matrices and cutoffs depend on the operand.

python -m harness.rtwins <seed> <nprograms> <nsteps> <out.ndjson>
"""
import json
import math
import os
import random
import sys

os.environ.setdefault("PHOTON_WEAVE_VERIF", "1")
os.environ.setdefault("XLA_FLAGS", "--xla_cpu_multi_thread_eigen=false intra_op_parallelism_threads=1")
os.environ.setdefault("JAX_PLATFORMS", "cpu")

import numpy as np  # noqa: E402

TOL = 1e-6


def _fixed_unitary(d: int, tag: int) -> np.ndarray:
    rng = np.random.default_rng(1000 * d + tag)
    m = rng.normal(size=(d, d)) + 1j * rng.normal(size=(d, d))
    q, r = np.linalg.qr(m)
    return q * (np.diag(r) / np.abs(np.diag(r)))


def make_program_class():
    from harness import drivers

    class RProgram(drivers.Program):
        share = True

        def __init__(self, rng, share):
            super().__init__(rng)
            self.share = share
            self.memo = {}
            self.used = {}          # kind -> {catalogue key: builder}: entries applied so far (both worlds alike)
            self.napplied = 0
            self.nshared = 0

        def mk(self, key, build):
            """the Operation for catalogue entry `key`: the one object (world A) or a fresh one (world B)"""
            self.napplied += 1
            self.used.setdefault(key[0], {})[key] = build
            if not self.share:
                return build()
            if key in self.memo:
                self.nshared += 1
            else:
                self.memo[key] = build()
            return self.memo[key]

        def single_op(self, s):
            r, T, jnp = self.rng, self.T, self.jnp
            k = self.kind(s)
            Op = T["Op"]
            again = sorted((key for key in self.used.get(k, {}) if k != "C" or key[2] == s.dimensions), key=repr)
            if k == "F" and self.heavy(s):
                again = [key for key in again if key[1] not in ("cre", "disp", "sq", "expr")]
            if again and r.random() < 0.5:          # an operation that was applied before, possibly to another subsystem
                key = r.choice(again)
                return self.mk(key, self.used[k][key])
            if k == "P":
                c = r.choice(["fix", "fix", "rot", "u3", "custom"])
                if c == "fix":
                    g = r.choice(["X", "Y", "Z", "H", "S", "T", "SX"])
                    return self.mk(("P", g), lambda: Op(getattr(T["P"], g)))
                if c == "rot":
                    g, th = r.choice(["RX", "RY", "RZ"]), r.choice([0.3, 1.1, -2.0])
                    return self.mk(("P", g, th), lambda: Op(getattr(T["P"], g), theta=th))
                if c == "u3":
                    a = r.choice([(0.4, 1.0, -0.7), (2.0, -0.3, 0.9)])
                    return self.mk(("P", "U3", a), lambda: Op(T["P"].U3, phi=a[0], theta=a[1], omega=a[2]))
                tag = r.choice([1, 2])
                return self.mk(("P", "Custom", tag), lambda: Op(T["P"].Custom, operator=jnp.array(_fixed_unitary(2, tag))))
            if k == "F":
                c = r.choice(["cre", "cre", "ann", "ps", "disp", "disp", "disp", "sq", "expr"])
                if self.heavy(s) and c in ("cre", "disp", "sq", "expr"):
                    c = r.choice(["ann", "ps"])
                if c == "cre":
                    return self.mk(("F", "cre"), lambda: Op(T["F"].Creation))
                if c == "ann":
                    return self.mk(("F", "ann"), lambda: Op(T["F"].Annihilation))
                if c == "ps":
                    ph = r.choice([0.4, 1.3])
                    return self.mk(("F", "ps", ph), lambda: Op(T["F"].PhaseShift, phi=ph))
                if c == "disp":
                    al = r.choice([0.4 + 0.2j, 1.1 + 0j])
                    return self.mk(("F", "disp", al), lambda: Op(T["F"].Displace, alpha=al))
                if c == "sq":
                    z = r.choice([0.25j])
                    return self.mk(("F", "sq", z), lambda: Op(T["F"].Squeeze, zeta=z))
                if c == "id":
                    return self.mk(("F", "id"), lambda: Op(T["F"].Identity))
                th = r.choice([0.7, -1.1])

                def build():
                    from photon_weave._math.ops import number_operator

                    return Op(T["F"].Expresion, expr=("expm", ("s_mult", 1j, th, "n")),
                              context={"n": lambda dims: number_operator(dims[0])})
                return self.mk(("F", "expr", th), build)
            d = s.dimensions
            tag = r.choice([1, 2])
            return self.mk(("C", "Custom", d, tag), lambda: Op(T["CS"].Custom, operator=jnp.array(_fixed_unitary(d, tag))))

        def do_tiny(self, live):
            self.do_op1(live)

        def step(self):
            """operation-heavy mix: the point is many applications of few objects to many different operands"""
            from harness import tracer

            r = self.rng
            what = r.choice(["op1"] * 9 + ["opn"] * 5 + ["struct"] * 2 + ["composite"] * 2 + ["measure", "resize", "kraus"])
            live = self.live()
            if live and self.crowded(live) and what not in ("op1", "measure", "resize"):
                what = "measure" if r.random() < 0.4 else "op1"
            self.last_kind = what
            tracer.set_intent("valid")
            if not live:
                return
            try:
                getattr(self, "do_" + what)(live)
            except Exception:  # noqa: BLE001  both worlds fail alike or the comparison shows it
                pass

        def do_op1(self, live):
            r = self.rng
            focks = [x for x in live if self.kind(x) == "F"]
            s = r.choice(focks) if focks and r.random() < 0.6 else r.choice(live)
            self.entry_call(s, "apply_operation", self.single_op(s))

        def do_opn(self, live):
            r, T, jnp = self.rng, self.T, self.jnp
            Op = T["Op"]
            c = r.choice(["bs", "bs", "cx", "cz", "swap", "cswap", "kron", "fexpr"])
            if c == "bs":
                t = self.same_composite(live, "F", 2)
                if t and (max(int(t[0].dimensions), 1) * max(int(t[1].dimensions), 1) > 400 or any(self.heavy(x) for x in t)):
                    return
                eta = r.choice([0.3, math.pi / 4, 1.0])
                op = self.mk(("C", "bs", eta), lambda: Op(T["C"].NonPolarizingBeamSplitter, eta=eta))
            elif c in ("cx", "cz", "swap"):
                t = self.same_composite(live, "P", 2)
                ty = {"cx": T["C"].CXPolarization, "cz": T["C"].CZPolarization, "swap": T["C"].SwapPolarization}[c]
                op = self.mk(("C", c), lambda: Op(ty))
            elif c == "cswap":
                t = self.same_composite(live, "P", 3)
                op = self.mk(("C", "cswap"), lambda: Op(T["C"].CSwapPolarization))
            elif c == "fexpr":
                # an expression over two Fock spaces: its matrix depends on both cutoffs
                t = self.same_composite(live, "F", 2)
                if not t or max(int(t[0].dimensions), 1) * max(int(t[1].dimensions), 1) > 400 or any(self.heavy(x) for x in t):
                    return
                from photon_weave.state.fock import Fock
                th = r.choice([0.5, -0.8])

                def build():
                    from photon_weave._math.ops import number_operator

                    return Op(T["C"].Expression, expr=("expm", ("s_mult", 1j, th, ("kron", "n1", "n2"))),
                              context={"n1": lambda dims: number_operator(dims[0]), "n2": lambda dims: number_operator(dims[1])},
                              state_types=(Fock, Fock))
                op = self.mk(("C", "fexpr", th), build)
            else:
                t = self.same_composite(live, "PC", 2)
                if not t:
                    return
                from photon_weave.state.custom_state import CustomState
                from photon_weave.state.polarization import Polarization

                kinds = tuple(self.kind(x) for x in t)
                dims = tuple(x.dimensions for x in t)
                ms = [_fixed_unitary(x.dimensions, 3) for x in t]

                def build():
                    return Op(T["C"].Expression, expr=("kron", "a", "b"),
                              context={"a": lambda d, m=ms[0]: jnp.array(m), "b": lambda d, m=ms[1]: jnp.array(m)},
                              state_types=tuple(Polarization if q == "P" else CustomState for q in kinds))
                op = self.mk(("C", "kron", kinds, dims), build)
            if not t:
                return
            self.handle_of(t[0]).apply_operation(op, *t)

    return RProgram


def main():
    seed, nprog, nsteps, out = int(sys.argv[1]), int(sys.argv[2]), int(sys.argv[3]), sys.argv[4]
    from photon_weave.photon_weave import Config

    from harness import ctwins, drivers, project, world

    drivers.PROFILE = "ctwin"          # operation-heavy mix, no switch toggling by the program itself
    RProgram = make_program_class()
    S = world.Sampler()
    S.force = False
    S.install()
    C = Config()
    shared_total = applied_total = 0
    with open(out, "w") as f:
        for p in range(nprog):
            ps = seed * 100003 + p
            contr = bool(ps % 2)
            C.set_seed(ps)
            C.set_contraction(contr)
            A = RProgram(random.Random(ps), True)
            C.set_seed(ps)
            C.set_contraction(contr)
            B = RProgram(random.Random(ps), False)
            wa, wb = ctwins.ProgWorld(A), ctwins.ProgWorld(B)
            steps = []
            for k in range(nsteps):
                kinds = []
                for prog in (A, B):
                    C.set_seed(ps * 1000 + k)
                    C.set_contraction(contr)
                    prog.last_kind = None
                    prog.step()
                    kinds.append(prog.last_kind)
                rec = {"k": k, "kind": kinds[0], "same_request": kinds[0] == kinds[1]}
                try:
                    try:
                        ra, la, da = project.joint_density(wa, project.MAX_JOINT_DIM)
                        rb, lb, db = project.joint_density(wb, project.MAX_JOINT_DIM)
                        if la != lb:
                            rec.update(eq=False, err=-1.0, why="different live sets")
                        else:
                            t = [max(x, y) for x, y in zip(da, db)]
                            err = float(np.max(np.abs(project.embed(ra, da, t) - project.embed(rb, db, t)))) if la else 0.0
                            rec.update(eq=bool(np.isfinite(err) and err <= TOL), err=err if np.isfinite(err) else -2.0, why="")
                    except project.TooLarge:
                        err = ctwins.blockwise_err(project, wa, wb)
                        if err is None:
                            rec.update(eq=True, err=0.0, why="unobservable: a block exceeds the dense-matrix cap")
                            steps.append(rec)
                            break
                        rec.update(eq=bool(np.isfinite(err) and err <= TOL), err=err if np.isfinite(err) else -2.0, why="blockwise")
                except project.Unobservable as ex:
                    rec.update(eq=True, err=0.0, why="unobservable: " + str(ex)[:80])
                steps.append(rec)
                if not rec["eq"] or not rec["same_request"]:
                    break
            shared_total += A.nshared
            applied_total += A.napplied
            f.write(json.dumps({"pair": ps, "steps": steps, "applied": A.napplied, "shared": A.nshared}) + "\n")
    print(json.dumps({"applied": applied_total, "reused_object": shared_total}))
    return 0


if __name__ == "__main__":
    sys.exit(main())

"""C12: compare the library's operators with the exact matrices exported from spec/Gates.tla."""
import json
import math
import sys

import numpy as np

from harness import speclib

TOL = 1e-7


def main() -> int:
    out = sys.argv[1]
    import jax.numpy as jnp

    from photon_weave._math import ops as O
    from photon_weave.operation import (CompositeOperationType, FockOperationType, Operation,
                                        PolarizationOperationType)
    from photon_weave.state.fock import Fock

    lib = speclib.load()
    cells, viols = [], []
    entries = 0

    def cmp(gate, source, dims, got, want, mask=None, params=None):
        nonlocal entries
        got = np.asarray(got, dtype=complex)
        want = np.asarray(want, dtype=complex)
        cell = {"gate": gate, "source": source, "dims": dims, "params": params}
        cells.append(cell)
        if got.shape != want.shape:
            viols.append({"kind": "shape", "a": source, "g": gate, "case": cell,
                          "detail": f"{gate} via {source} at {dims}: shape {got.shape}, expected {want.shape}"})
            return
        diff = np.abs(got - want)
        if mask is not None:
            diff = diff * mask
            entries += int(mask.sum())
        else:
            entries += diff.size
        if diff.max() > TOL:
            r, c = np.unravel_index(np.argmax(diff), diff.shape)
            viols.append({"kind": "entry", "a": source, "g": gate, "case": cell,
                          "detail": f"{gate} via {source} at dims {dims}: entry [{r},{c}] is {got[r, c]:.6g}, textbook {want[r, c]:.6g}"})

    pi = math.pi
    P, F, C = PolarizationOperationType, FockOperationType, CompositeOperationType
    # ---- polarization gates: Operation interface and raw constructors
    raw = {"I": O.identity_operator, "X": O.x_operator, "Y": O.y_operator, "Z": O.z_operator, "H": O.hadamard_operator,
           "S": O.s_operator, "T": O.t_operator, "SX": O.sx_operator}
    for g in ["I", "X", "Y", "Z", "H", "S", "T", "SX"]:
        op = Operation(getattr(P, g))
        op.dimensions = [2]
        cmp(g, "Operation", [2], op.operator, speclib.gate_matrix(g))
        cmp(g, "_math.ops", [2], raw[g](), speclib.gate_matrix(g))
    rot = {"RX": O.rx_operator, "RY": O.ry_operator, "RZ": O.rz_operator}
    for g in [x for x in lib["gates"] if x[:2] in rot and x[2:].isdigit()]:
        k = int(g[2:])
        for shift in (0, -8, 8):           # same matrix one period (4 pi) below / above
            th = (k + shift) * pi / 2
            op = Operation(getattr(P, g[:2]), theta=th)
            op.dimensions = [2]
            cmp(g, "Operation", [2], op.operator, speclib.gate_matrix(g), params={"theta": f"{k + shift}*pi/2"})
            cmp(g, "_math.ops", [2], rot[g[:2]](th), speclib.gate_matrix(g), params={"theta": f"{k + shift}*pi/2"})
    for g in [x for x in lib["gates"] if x.startswith("U3_")]:
        p, t, o = (int(x) for x in g.split("_")[1:])
        op = Operation(P.U3, phi=p * pi / 2, theta=t * pi / 2, omega=o * pi / 2)
        op.dimensions = [2]
        cmp(g, "Operation", [2], op.operator, speclib.gate_matrix(g))
        cmp(g, "_math.ops", [2], O.u3_operator(p * pi / 2, t * pi / 2, o * pi / 2), speclib.gate_matrix(g))
    # ---- Fock operators at every cutoff 1..6: exact block + ladder identities beyond it
    def block(m, d):
        k = min(d, 3)
        mask = np.zeros((d, d))
        mask[:k, :k] = 1
        want = np.zeros((d, d), dtype=complex)
        want[:k, :k] = m[:k, :k]
        return want, mask
    fock = {"Cre": (F.Creation, {}, O.creation_operator), "Ann": (F.Annihilation, {}, O.annihilation_operator),
            "FId": (F.Identity, {}, None), "Num": (None, {}, O.number_operator)}
    for g, (ty, kw, rawf) in fock.items():
        for d in range(1, 7):
            want, mask = block(speclib.gate_matrix(g), d)
            if ty is not None:
                op = Operation(ty, **kw)
                op.dimensions = [d]
                cmp(g, "Operation", [d], op.operator, want, mask)
            if rawf is not None:
                cmp(g, "_math.ops", [d], rawf(d), want, mask)
    for g in [x for x in lib["gates"] if x.startswith("PS")]:
        k = int(g[2:])
        for d in range(1, 7):
            want, mask = block(speclib.gate_matrix(g), d)
            for shift in (0, -8, 8):
                op = Operation(F.PhaseShift, phi=(k + shift) * pi / 4)
                op.dimensions = [d]
                cmp(g, "Operation", [d], op.operator, want, mask, params={"phi": f"{k + shift}*pi/4"})
            cmp(g, "_math.ops", [d], O.phase_operator(d, k * pi / 4), want, mask)
    for d in range(1, 9):     # ladder algebra on the library's own matrices, every cutoff
        a, ad, n = (np.asarray(x, dtype=complex) for x in (O.annihilation_operator(d), O.creation_operator(d), O.number_operator(d)))
        cell = {"gate": "ladder-identities", "source": "_math.ops", "dims": [d], "params": None}
        cells.append(cell)
        entries += 3 * d * d
        comm = a @ ad - ad @ a
        ok = (np.allclose(ad @ a, np.diag(np.arange(d)), atol=TOL) and np.allclose(n, np.diag(np.arange(d)), atol=TOL)
              and np.allclose(comm[: d - 1, : d - 1], np.eye(d - 1), atol=TOL)
              and all(abs(a[m - 1, m] - math.sqrt(m)) < TOL for m in range(1, d)))
        if not ok:
            viols.append({"kind": "identity", "a": "_math.ops", "g": "ladder", "case": cell,
                          "detail": f"ladder identities a|n>=sqrt(n)|n-1>, a^dagger a = n, [a,a^dagger]=1 fail at cutoff {d}"})
    # ---- displacement / squeezing: conventions through the exact generators of Gates.tla (finite difference),
    #      and the vacuum statistics the property names (rational relations only)
    eps = 1e-4
    for kind, key, ty, par, rawf in (("Displace", "dgen", F.Displace, "alpha", O.displacement_operator),
                                      ("Squeeze", "sgen", F.Squeeze, "zeta", O.squeezing_operator)):
        for rec in lib[key]:
            z = complex(rec["p"], rec["q"])
            want3 = speclib.mat(rec["op"]["m"], rec["op"]["s"])
            for d in (3, 4, 6):
                for source in ("Operation", "_math.ops"):
                    def build(x):
                        if source == "_math.ops":
                            return np.asarray(rawf(d, x), dtype=complex)
                        op = Operation(ty, **{par: x})
                        op.dimensions = [d]
                        return np.asarray(op.operator, dtype=complex)
                    fd = (build(eps * z) - build(-eps * z)) / (2 * eps)
                    # inside the exact block only entries whose intermediate levels stay below 3 are exact
                    mask = np.zeros((d, d))
                    mask[:3, :3] = 1
                    if kind == "Displace" and d > 3:
                        pass
                    want = np.zeros((d, d), dtype=complex)
                    want[:3, :3] = want3
                    got = fd.copy()
                    cell = {"gate": f"{kind}-generator", "source": source, "dims": [d], "params": {par: str(z)}}
                    cells.append(cell)
                    entries += 9
                    diff = np.abs(got - want) * mask
                    if diff.max() > 1e-6:
                        r, c = np.unravel_index(np.argmax(diff), diff.shape)
                        viols.append({"kind": "generator", "a": source, "g": kind, "case": cell,
                                      "detail": f"d/d(eps) {kind}(eps*{z}) at 0, cutoff {d}: entry [{r},{c}] is {got[r, c]:.6g}, definition gives {want[r, c]:.6g}"})
    for z in (0.5, 0.5j, 0.3 + 0.4j):
        d = 30
        vac = np.zeros(d, dtype=complex); vac[0] = 1
        coh = np.asarray(O.displacement_operator(d, z), dtype=complex) @ vac
        sq = np.asarray(O.squeezing_operator(d, z), dtype=complex) @ vac
        cell = {"gate": "vacuum-statistics", "source": "_math.ops", "dims": [d], "params": {"z": str(z)}}
        cells.append(cell)
        entries += 2 * d
        pn = np.abs(coh) ** 2
        ok = all(abs(pn[n + 1] * (n + 1) - pn[n] * abs(z) ** 2) < 1e-9 for n in range(8)) and np.max(np.abs(sq[1::2])) < 1e-9
        if not ok:
            viols.append({"kind": "identity", "a": "_math.ops", "g": "vacuum-statistics", "case": cell,
                          "detail": f"D({z})|0> is not Poissonian (p(n+1)/p(n) = |alpha|^2/(n+1)) or S({z})|0> populates odd numbers"})
    # ---- composite operators
    comp = {"CX": (C.CXPolarization, O.controlled_not_operator, [2, 2]), "CZ": (C.CZPolarization, O.controlled_z_operator, [2, 2]),
            "SWAP": (C.SwapPolarization, O.swap_operator, [2, 2]), "CSWAP": (C.CSwapPolarization, O.controlled_swap_operator, [2, 2, 2])}
    for g, (ty, rawf, dims) in comp.items():
        op = Operation(ty)
        op.dimensions = dims
        cmp(g, "Operation", dims, op.operator, speclib.gate_matrix(g))
        cmp(g, "_math.ops", dims, rawf(), speclib.gate_matrix(g))
    for g in [x for x in lib["gates"] if x.startswith("BS")]:
        k = int(g[2:])
        full = speclib.gate_matrix(g)          # 9 x 9 on two modes of dimension 3
        for d in (1, 2, 3):
            idx = [n1 * 3 + n2 for n1 in range(d) for n2 in range(d)]
            want = full[np.ix_(idx, idx)]
            tot = np.array([n1 + n2 for n1 in range(d) for n2 in range(d)])
            # exact only where the truncated generator does not leave the cutoff: total photons <= d-1
            m1 = (tot[:, None] <= d - 1) & (tot[None, :] <= d - 1)
            for shift in (0, 8):
                op = Operation(C.NonPolarizingBeamSplitter, eta=(k + shift) * pi / 4)
                op.dimensions = [d, d]
                cmp(g, "Operation", [d, d], op.operator, want, m1.astype(float), params={"eta": f"{k + shift}*pi/4"})
    # ---- the Operation interface hands out the operator at the dimension of the target
    for prep, ty, kw in ((1, F.Creation, {}), (2, F.Annihilation, {}), (2, F.PhaseShift, {"phi": pi / 4}), (0, F.Identity, {})):
        f = Fock()
        f.state = prep
        op = Operation(ty, **kw)
        f.apply_operation(op)
        f.expand()
        cell = {"gate": ty.name, "source": "applied", "dims": [int(f.dimensions)], "params": {"prepared": prep}}
        cells.append(cell)
        if int(op.operator.shape[0]) != int(f.dimensions):
            viols.append({"kind": "target_dim", "a": "applied", "g": ty.name, "case": cell,
                          "detail": f"operator of size {op.operator.shape} applied to a Fock space of dimension {f.dimensions}"})
    json.dump({"cells": cells, "violations": viols, "entries_compared": entries}, open(out, "w"))
    print(len(cells), "cells", len(viols), "violations")
    return 0


if __name__ == "__main__":
    sys.exit(main())

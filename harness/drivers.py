"""
Seeded random programs over the PUBLIC API with continuous parameters (random angles, complex
displacements, random unitaries, random channels and POVMs, random resizes, deliberately invalid
requests), several independent composite envelopes per program.  Executed under harness/tracer.py;
the recorded traces are judged by TLC (spec/PWTrace.tla).

``python -m harness.drivers <seed> <nprograms> <nsteps> <trace file>``
"""

from __future__ import annotations

import cmath
import math
import os
import random
import sys
from typing import Any, List

os.environ.setdefault("PHOTON_WEAVE_VERIF", "1")
os.environ.setdefault("XLA_FLAGS", "--xla_cpu_multi_thread_eigen=false intra_op_parallelism_threads=1")
os.environ.setdefault("JAX_PLATFORMS", "cpu")

import numpy as np  # noqa: E402


def rand_unitary(rng: random.Random, d: int) -> np.ndarray:
    a = np.array([[complex(rng.gauss(0, 1), rng.gauss(0, 1)) for _ in range(d)] for _ in range(d)])
    q, r = np.linalg.qr(a)
    ph = np.diag(r) / np.abs(np.diag(r))
    return q * ph


def rand_kraus(rng: random.Random, d: int) -> List[np.ndarray]:
    n = rng.choice([1, 2, 3])
    big = rand_unitary(rng, d * n)
    return [big[k * d:(k + 1) * d, :d] for k in range(n)]        # isometry blocks: sum K^dagger K = I


def rand_povm(rng: random.Random, d: int) -> List[np.ndarray]:
    u = rand_unitary(rng, d)
    lam = np.array([rng.uniform(0.05, 0.95) for _ in range(d)])
    m0 = u @ np.diag(np.sqrt(lam)) @ u.conj().T
    m1 = u @ np.diag(np.sqrt(1 - lam)) @ u.conj().T
    return [m0, m1]


PROFILE = os.environ.get("VERIF_DRIVER_PROFILE", "default")


class Program:
    def __init__(self, rng: random.Random):
        import jax.numpy as jnp

        from photon_weave.operation import (CompositeOperationType, CustomStateOperationType,
                                            FockOperationType, Operation, PolarizationOperationType)
        from photon_weave.photon_weave import Config
        from photon_weave.state.composite_envelope import CompositeEnvelope
        from photon_weave.state.custom_state import CustomState
        from photon_weave.state.envelope import Envelope
        from photon_weave.state.expansion_levels import ExpansionLevel
        from photon_weave.state.polarization import Polarization, PolarizationLabel

        self.rng = rng
        self.jnp = jnp
        self.T = dict(C=CompositeOperationType, CS=CustomStateOperationType, F=FockOperationType, Op=Operation,
                      P=PolarizationOperationType, Config=Config, CE=CompositeEnvelope, Custom=CustomState,
                      Env=Envelope, EL=ExpansionLevel, Pol=Polarization, PL=PolarizationLabel)
        self.envs: List[Any] = []
        self.customs: List[Any] = []
        self.handles: List[Any] = []
        self.ops: List[Any] = []
        nenv = rng.choice([2, 3, 3, 4])
        for _ in range(nenv):
            lab = rng.choice(list(PolarizationLabel))
            e = Envelope(polarization=Polarization(lab))
            n = rng.choice([0, 0, 1, 1, 2])
            if n:
                e.fock.state = n
            self.envs.append(e)
        for _ in range(rng.choice([1, 2])):
            c = CustomState(rng.choice([2, 3]))
            self.customs.append(c)
        if PROFILE != "ctwin":
            Config().set_contraction(rng.random() < 0.7)
        self.last_kind = None

    # ------------------------------------------------------------------ helpers
    def subs(self) -> List[Any]:
        out = []
        for e in self.envs:
            out += [e.fock, e.polarization]
        return out + list(self.customs)

    def live(self) -> List[Any]:
        return [s for s in self.subs() if not getattr(s, "measured", False)]

    def kind(self, s: Any) -> str:
        return {"Fock": "F", "Polarization": "P", "CustomState": "C"}[type(s).__name__]

    def env_of(self, s: Any) -> Any:
        return getattr(s, "envelope", None)

    def block_dim(self, s: Any) -> int:
        """product of the dimensions of everything stored together with s"""
        idx = getattr(s, "index", None)
        try:
            if isinstance(idx, int):
                e = self.env_of(s)
                return int(e.fock.dimensions) * int(e.polarization.dimensions)
            if isinstance(idx, (tuple, list)):
                h = self.handle_of(s)
                d = 1
                for o in h.states[idx[0]].state_objs:
                    d *= max(int(o.dimensions), 1)
                return d
        except Exception:  # noqa: BLE001
            return 1 << 30
        return max(int(getattr(s, "dimensions", 1)), 1)

    def crowded(self, live: List[Any]) -> bool:
        """would bringing everything together exceed what a dense density matrix can hold?"""
        total = 1
        for s in live:
            total *= max(int(getattr(s, "dimensions", 1)), 1)
            if total > 3000:
                return True
        return any(self.block_dim(s) > 1500 for s in live)

    def heavy(self, s: Any) -> bool:
        return int(getattr(s, "dimensions", 1)) > 24 or self.block_dim(s) > 1500

    def handle_of(self, s: Any) -> Any:
        h = getattr(s, "composite_envelope", None)
        if h is not None:
            return h
        e = self.env_of(s)
        if e is not None and e.composite_envelope is not None:
            return e.composite_envelope
        for h in self.handles:
            if any(x is s for x in h.state_objs):
                return h
        return None

    def entry_call(self, s: Any, name: str, *args: Any, **kw: Any) -> Any:
        """Call ``name`` for subsystem s at a random entry point."""
        options = ["sub"]
        e = self.env_of(s)
        if e is not None and not e.measured:
            options.append("env")
        h = self.handle_of(s)
        if h is not None:
            options.append("ce")
        en = self.rng.choice(options)
        if en == "sub":
            return getattr(s, name)(*args, **kw)
        if en == "env":
            return getattr(e, name)(*args, s, **kw)
        return getattr(h, name)(*args, s, **kw)

    def single_op(self, s: Any) -> Any:
        r, T, jnp = self.rng, self.T, self.jnp
        k = self.kind(s)
        reuse = [o for o in self.ops if o[0] == k]
        if reuse and r.random() < 0.3:
            return r.choice(reuse)[1]
        if k == "P":
            c = r.choice(["fix", "rot", "u3", "custom"])
            if c == "fix":
                op = T["Op"](getattr(T["P"], r.choice(["X", "Y", "Z", "H", "S", "T", "SX", "I"])))
            elif c == "rot":
                op = T["Op"](getattr(T["P"], r.choice(["RX", "RY", "RZ"])), theta=r.uniform(-7, 7))
            elif c == "u3":
                op = T["Op"](T["P"].U3, phi=r.uniform(-4, 4), theta=r.uniform(-4, 4), omega=r.uniform(-4, 4))
            else:
                op = T["Op"](T["P"].Custom, operator=jnp.array(rand_unitary(r, 2)))
        elif k == "F":
            c = r.choice(["cre", "ann", "ps", "disp", "sq", "id", "expr"])
            if PROFILE == "fock":       # automatic cutoffs: larger, negative and complex parameters
                c = r.choice(["cre", "ann", "ps", "disp", "disp", "disp", "sq", "sq", "id"])
            if self.heavy(s) and c in ("cre", "disp", "sq", "expr"):
                # cutoffs only grow: a mode that is already large (or sits in a large block) gets no more photons,
                # otherwise long programs end up with matrices of many GB
                c = r.choice(["ann", "ps", "id"])
            if c == "cre":
                op = T["Op"](T["F"].Creation)
            elif c == "ann":
                op = T["Op"](T["F"].Annihilation)
            elif c == "ps":
                op = T["Op"](T["F"].PhaseShift, phi=r.uniform(-7, 7))
            elif c == "disp":
                al = complex(r.uniform(-0.6, 0.6), r.uniform(-0.6, 0.6))
                if PROFILE == "fock":
                    al = r.choice([0.3, 1.0, 1.6]) * cmath.exp(1j * r.uniform(0, 2 * math.pi))
                op = T["Op"](T["F"].Displace, alpha=al)
            elif c == "sq":
                z = complex(r.uniform(-0.3, 0.3), r.uniform(-0.3, 0.3))
                if PROFILE == "fock":
                    z = r.choice([0.2, 0.5, 0.8]) * cmath.exp(1j * r.uniform(0, 2 * math.pi))
                op = T["Op"](T["F"].Squeeze, zeta=z)
            elif c == "id":
                op = T["Op"](T["F"].Identity)
            else:
                from photon_weave._math.ops import number_operator

                op = T["Op"](T["F"].Expresion, expr=("expm", ("s_mult", 1j, r.uniform(-3, 3), "n")),
                             context={"n": lambda dims: number_operator(dims[0])})
        else:
            op = T["Op"](T["CS"].Custom, operator=jnp.array(rand_unitary(r, s.dimensions)))
        self.ops.append((k, op))
        return op

    # ------------------------------------------------------------------ steps
    def step(self) -> None:
        from . import tracer

        r = self.rng
        kinds = ["op1"] * 5 + ["opn"] * 4 + ["kraus"] * 2 + ["povm"] * 2 + ["measure"] * 2 + ["struct"] * 4 + \
                ["composite"] * 3 + ["resize"] * 2 + ["invalid"] * 2 + ["trace"] * 2 + ["config"]
        if PROFILE == "measure":
            kinds = ["op1"] * 5 + ["opn"] * 3 + ["povm"] * 4 + ["measure"] * 6 + ["struct"] * 2 + ["composite"] * 2 + ["kraus"]
        if PROFILE == "fock":       # Fock-heavy: displacement / squeezing of number, superposed, entangled and mixed states
            kinds = ["op1"] * 9 + ["opn"] * 3 + ["kraus"] * 3 + ["struct"] * 3 + ["composite"] * 2 + ["measure", "resize", "config"]
        if PROFILE == "kraus":      # channel-heavy: strong and very weak channels on every kind of target
            kinds = ["op1"] * 4 + ["opn"] * 3 + ["kraus"] * 8 + ["struct"] * 3 + ["composite"] * 2 + ["measure", "config"]
        if PROFILE == "ctwin":      # no switch toggling by the program itself; near-pure states on purpose
            kinds = ["op1"] * 5 + ["tiny"] * 5 + ["opn"] * 3 + ["kraus"] * 2 + ["measure"] * 2 + ["struct"] * 4 + ["composite"] * 2 + ["resize"]
        what = r.choice(kinds)
        live = self.live()
        if live and self.crowded(live) and what not in ("op1", "tiny", "measure", "resize", "config", "invalid"):
            # the joint space of this program is already large: nothing that brings blocks together any more
            what = "measure" if r.random() < 0.4 else "op1"
        self.last_kind = what
        tracer.set_intent("valid")
        if not live:
            return
        try:
            getattr(self, "do_" + what)(live)
        except Exception:  # noqa: BLE001  judged from the trace, never here
            pass

    def do_tiny(self, live: List[Any]) -> None:
        """operations very close to the identity: nearly-basis / nearly-pure states"""
        r, T = self.rng, self.T
        s = r.choice(live)
        eps = r.choice([1e-3, 3e-3, 1e-2, 2e-4])
        k = self.kind(s)
        if k == "P":
            op = T["Op"](getattr(T["P"], r.choice(["RX", "RY", "RZ"])), theta=eps)
        elif k == "F":
            op = T["Op"](T["F"].Displace, alpha=complex(eps, eps / 2)) if r.random() < 0.7 else T["Op"](T["F"].PhaseShift, phi=eps)
        else:
            m = np.eye(s.dimensions, dtype=complex)
            m[0, 1] = eps
            m[1, 0] = -eps
            q, _ = np.linalg.qr(m)
            op = T["Op"](T["CS"].Custom, operator=self.jnp.array(q))
        self.entry_call(s, "apply_operation", op)

    def do_op1(self, live: List[Any]) -> None:
        s = self.rng.choice(live)
        focks = [x for x in live if self.kind(x) == "F"]
        if PROFILE == "fock" and focks and self.rng.random() < 0.7:
            s = self.rng.choice(focks)
        self.entry_call(s, "apply_operation", self.single_op(s))

    def same_composite(self, live: List[Any], kind: str, n: int) -> List[Any]:
        groups = {}
        for s in live:
            h = self.handle_of(s)
            if h is not None and self.kind(s) in kind:
                groups.setdefault(id(self.T["CE"]._containers.get(h.uid)), []).append(s)
        cands = [g for g in groups.values() if len(g) >= n]
        if not cands:
            return []
        return self.rng.sample(self.rng.choice(cands), n)

    def do_opn(self, live: List[Any]) -> None:
        r, T, jnp = self.rng, self.T, self.jnp
        c = r.choice(["bs", "cx", "cz", "swap", "cswap", "kron"])
        if c == "bs":
            t = self.same_composite(live, "F", 2)
            if t and (max(int(t[0].dimensions), 1) * max(int(t[1].dimensions), 1) > 400 or any(self.heavy(x) for x in t)):
                return
            op = T["Op"](T["C"].NonPolarizingBeamSplitter, eta=r.uniform(-4, 4))
        elif c in ("cx", "cz", "swap"):
            t = self.same_composite(live, "P", 2)
            op = T["Op"]({"cx": T["C"].CXPolarization, "cz": T["C"].CZPolarization, "swap": T["C"].SwapPolarization}[c])
        elif c == "cswap":
            t = self.same_composite(live, "P", 3)
            op = T["Op"](T["C"].CSwapPolarization)
        else:
            t = self.same_composite(live, "PC", 2)
            if not t:
                return
            from photon_weave.state.custom_state import CustomState
            from photon_weave.state.polarization import Polarization

            ms = [rand_unitary(r, x.dimensions) for x in t]
            op = T["Op"](T["C"].Expression, expr=("kron", "a", "b"),
                         context={"a": lambda d, m=ms[0]: jnp.array(m), "b": lambda d, m=ms[1]: jnp.array(m)},
                         state_types=tuple(Polarization if self.kind(x) == "P" else CustomState for x in t))
        if not t:
            return
        self.handle_of(t[0]).apply_operation(op, *t)

    def do_kraus(self, live: List[Any]) -> None:
        s = self.rng.choice([x for x in live if self.kind(x) != "F"] or live)
        if PROFILE in ("fock", "kraus") and self.rng.random() < (0.7 if PROFILE == "fock" else 0.3):
            s = self.rng.choice([x for x in live if self.kind(x) == "F"] or live)
        d = s.dimensions if s.dimensions > 0 else 3
        if self.kind(s) == "F":
            s.expand()
            d = s.dimensions
        if PROFILE in ("fock", "kraus") and self.rng.random() < 0.5:
            # a very weak unitary-mixture channel: nearly pure states around the library's 1e-6 purity thresholds
            p = self.rng.choice([2e-6, 5e-6, 2e-5, 1e-3, 0.2])
            u = rand_unitary(self.rng, d)
            ks = [np.sqrt(1 - p) * np.eye(d, dtype=complex), np.sqrt(p) * u]
        else:
            ks = rand_kraus(self.rng, d)
        self.entry_call(s, "apply_kraus", [self.jnp.array(k) for k in ks])

    def do_povm(self, live: List[Any]) -> None:
        s = self.rng.choice([x for x in live if self.kind(x) != "F"] or live)
        if self.kind(s) == "F":
            s.expand()
        ops = [self.jnp.array(k) for k in rand_povm(self.rng, s.dimensions)]
        destr = self.rng.random() < 0.4
        en = self.rng.choice(["sub", "env", "ce"])
        e, h = self.env_of(s), self.handle_of(s)
        if en == "env" and e is not None and not e.measured:
            e.measure_POVM(ops, s, destructive=destr)
        elif en == "ce" and h is not None:
            h.measure_POVM(ops, s, destructive=destr)
        else:
            s.measure_POVM(ops, destructive=destr, partial=self.rng.random() < 0.5)

    def do_measure(self, live: List[Any]) -> None:
        s = self.rng.choice(live)
        sep, destr = self.rng.random() < 0.5, self.rng.random() < 0.5
        en = self.rng.choice(["sub", "env", "ce"])
        e, h = self.env_of(s), self.handle_of(s)
        if en == "env" and e is not None and not e.measured:
            e.measure(s, separate_measurement=sep, destructive=destr)
        elif en == "ce" and h is not None:
            h.measure(s, separate_measurement=sep, destructive=destr)
        else:
            s.measure(separate_measurement=sep, destructive=destr)

    def do_struct(self, live: List[Any]) -> None:
        r = self.rng
        c = r.choice(["envcombine", "envreorder", "expand", "contract", "cecombine", "cereorder"])
        s = r.choice(live)
        e, h = self.env_of(s), self.handle_of(s)
        if c == "envcombine" and e is not None and e.state is None and not e.fock.measured and not e.polarization.measured \
                and e.fock.index is None and e.polarization.index is None:
            e.combine()
        elif c == "envreorder" and e is not None and not e.measured:
            e.reorder(*r.sample([e.fock, e.polarization], r.choice([1, 2])))
        elif c == "expand":
            self.entry_call(s, "expand") if r.random() < 0.5 or h is None else h.expand(s)
        elif c == "contract":
            s.contract(final=r.choice([self.T["EL"].Label, self.T["EL"].Vector]))
        elif c in ("cecombine", "cereorder") and h is not None:
            t = self.same_composite(live, "FPC", r.choice([1, 2, 3]))
            if t:
                hh = self.handle_of(t[0])
                (hh.combine if c == "cecombine" else hh.reorder)(*t)

    def do_composite(self, live: List[Any]) -> None:
        r = self.rng
        free_e = [e for e in self.envs if e.composite_envelope is None and not e.measured
                  and not e.fock.measured and not e.polarization.measured]
        taken = {id(o) for h in self.handles for o in h.state_objs}
        free_c = [c for c in self.customs if c.composite_envelope is None and id(c) not in taken]
        args: List[Any] = r.sample(free_e, min(len(free_e), r.choice([0, 1, 2]))) + \
            r.sample(free_c, min(len(free_c), r.choice([0, 1])))
        if self.handles and r.random() < 0.5:
            args += r.sample(self.handles, min(len(self.handles), r.choice([1, 2])))
        if not args:
            return
        r.shuffle(args)
        self.handles.append(self.T["CE"](*args))

    def do_resize(self, live: List[Any]) -> None:
        f = [s for s in live if self.kind(s) == "F"]
        if not f:
            return
        s = self.rng.choice(f)
        n = self.rng.choice([1, 2, 3, 4, 5, 6, 8])
        en = self.rng.choice(["sub", "env", "ce"])
        e, h = self.env_of(s), self.handle_of(s)
        if en == "env" and e is not None:
            e.resize_fock(n)
        elif en == "ce" and h is not None:
            h.resize_fock(n, s)
        else:
            s.resize(n)

    def do_trace(self, live: List[Any]) -> None:
        s = self.rng.choice(live)
        h = self.handle_of(s)
        if h is not None and self.rng.random() < 0.5:
            t = self.same_composite(live, "FPC", self.rng.choice([1, 2]))
            if t:
                self.handle_of(t[0]).trace_out(*t)
                return
        s.trace_out()

    def do_config(self, live: List[Any]) -> None:
        self.T["Config"]().set_contraction(self.rng.random() < 0.5)

    def do_invalid(self, live: List[Any]) -> None:
        from . import tracer

        r, T, jnp = self.rng, self.T, self.jnp
        tracer.set_intent("invalid")
        dead = [s for s in self.subs() if getattr(s, "measured", False)]
        c = r.choice(["kraus_incomplete", "kraus_size", "povm_size", "custom_size", "wrongkind", "ann", "dead", "dead"])
        if c == "dead" and dead:
            s = r.choice(dead)
            k = r.choice(["op", "kraus", "measure", "povm"])
            if k == "op":
                g = {"P": T["Op"](T["P"].X), "F": T["Op"](T["F"].Identity)}[self.kind(s)]
                self.entry_call(s, "apply_operation", g)
            elif k == "kraus":
                self.entry_call(s, "apply_kraus", [jnp.eye(2 if self.kind(s) == "P" else 3)])
            elif k == "measure":
                s.measure()
            else:
                s.measure_POVM([jnp.eye(2 if self.kind(s) == "P" else 3)])
            return
        cand = [x for x in live if self.kind(x) != "F"] or live
        s = r.choice(cand)
        d = max(s.dimensions, 2)
        if c == "kraus_incomplete":
            self.entry_call(s, "apply_kraus", [jnp.array(np.diag([1.0] + [0.0] * (d - 1)).astype(complex))])
        elif c == "kraus_size":
            self.entry_call(s, "apply_kraus", [jnp.eye(d + 1, dtype=complex)])
        elif c == "povm_size":
            s.measure_POVM([jnp.eye(d + 1, dtype=complex)], destructive=False)
        elif c == "custom_size" and self.kind(s) != "F":
            ty = T["P"].Custom if self.kind(s) == "P" else T["CS"].Custom
            self.entry_call(s, "apply_operation", T["Op"](ty, operator=jnp.eye(d + 1, dtype=complex)))
        elif c == "wrongkind":
            e = self.env_of(s)
            if e is not None and not e.measured:
                op = T["Op"](T["F"].Identity) if self.kind(s) == "P" else T["Op"](T["P"].X)
                e.apply_operation(op, s)
        elif c == "ann":
            f = [x for x in live if self.kind(x) == "F" and x._num_quanta == 0]
            if f:
                self.entry_call(r.choice(f), "apply_operation", T["Op"](T["F"].Annihilation))


def main() -> int:
    seed, nprog, nsteps, path = int(sys.argv[1]), int(sys.argv[2]), int(sys.argv[3]), sys.argv[4]
    import jax

    from . import tracer, world

    sink = open(path, "w")
    S = world.Sampler()
    S.force = False
    S.install()
    tracer.install(sink)
    from photon_weave.photon_weave import Config

    for p in range(nprog):
        rng = random.Random(seed * 100003 + p)
        tracer.new_trace(seed * 1000 + p)
        Config().set_seed(rng.randrange(10 ** 6))
        try:
            prog = Program(rng)
        except Exception:  # noqa: BLE001
            continue
        for _ in range(nsteps):
            prog.step()
    sink.close()
    return 0


if __name__ == "__main__":
    sys.exit(main())

"""
The operator library exported from the TLA+ specification (spec/Gates.tla via MC_Lib).

Every operator is exported as integer 4-tuples <<a,b,c,d>> = (a + b*sqrt2) + i (c + d*sqrt2)
together with a scale exponent s (the denoted matrix is m / sqrt2^s).  This module turns them
into numpy arrays and maps gate identifiers of the specification to the real library's
``Operation`` objects.
"""

from __future__ import annotations

import json
import math
import os
from typing import Any, Dict, List

import numpy as np

S2 = math.sqrt(2.0)
HERE = os.path.dirname(os.path.abspath(__file__))
LIB_PATH = os.path.join(HERE, "..", "out", "speclib.json")


def ring(x: List[int]) -> complex:
    return complex(x[0] + x[1] * S2, x[2] + x[3] * S2)


def weight(w: List[int]) -> float:
    return w[0] + w[1] * S2


def mat(m: List[List[List[int]]], s: int = 0) -> np.ndarray:
    a = np.array([[ring(e) for e in row] for row in m], dtype=complex)
    return a / (S2 ** s)


def ket(v: List[List[int]]) -> np.ndarray:
    return np.array([ring(e) for e in v], dtype=complex)


_lib: Dict[str, Any] = {}


def load(path: str = LIB_PATH) -> Dict[str, Any]:
    global _lib
    if not _lib:
        with open(path) as f:
            _lib = json.load(f)
    return _lib


def gate_matrix(g: str) -> np.ndarray:
    lib = load()
    if g in lib["gates"]:
        r = lib["gates"][g]
    else:
        r = lib["custom"][g]
    return mat(r["m"], r["s"])


def kraus_set(c: str) -> List[np.ndarray]:
    r = load()["kraus"][c]
    return [mat(k, r["s"]) for k in r["ks"]]


def povm_set(c: str) -> List[np.ndarray]:
    r = load()["povm"][c]
    return [mat(k, r["s"]) for k in r["ks"]]


def set_dim(kind: str, c: str) -> int:
    return int(load()[kind][c]["d"])


def is_custom(g: str) -> bool:
    return g in load()["custom"]


# ---------------------------------------------------------------- real Operation objects
def make_operation(g: str, target_kind: str, fresh: bool = True) -> Any:
    """Build the real library's Operation for gate id ``g`` applied to a subsystem of kind
    target_kind ('F', 'P', 'C').  Built-in types are requested by *type and parameter*; only
    user matrices (Custom) carry numbers taken from the specification."""
    import jax.numpy as jnp

    from photon_weave.operation import (
        CompositeOperationType,
        CustomStateOperationType,
        FockOperationType,
        Operation,
        PolarizationOperationType,
    )

    pi = math.pi
    if target_kind == "C":
        # custom states know only Custom / Expression operators: hand over the spec's matrix
        return Operation(CustomStateOperationType.Custom, operator=jnp.array(gate_matrix(g)))
    if is_custom(g):
        if target_kind == "P":
            return Operation(PolarizationOperationType.Custom, operator=jnp.array(gate_matrix(g)))
        if target_kind == "F":
            return Operation(FockOperationType.Custom, operator=jnp.array(gate_matrix(g)))
    P = PolarizationOperationType
    F = FockOperationType
    if g in ("I", "X", "Y", "Z", "H", "S", "T", "SX"):
        return Operation(getattr(P, g))
    if g[:2] in ("RX", "RY", "RZ") and g[2:].isdigit():
        return Operation(getattr(P, g[:2]), theta=int(g[2:]) * pi / 2)
    if g.startswith("U3_"):
        p, t, o = (int(x) for x in g.split("_")[1:])
        return Operation(P.U3, phi=p * pi / 2, theta=t * pi / 2, omega=o * pi / 2)
    if g == "Cre":
        return Operation(F.Creation)
    if g == "Ann":
        return Operation(F.Annihilation)
    if g == "FId":
        return Operation(F.Identity)
    if g.startswith("PS"):
        return Operation(F.PhaseShift, phi=int(g[2:]) * pi / 4)
    C = CompositeOperationType
    if g == "CX":
        return Operation(C.CXPolarization)
    if g == "CZ":
        return Operation(C.CZPolarization)
    if g == "SWAP":
        return Operation(C.SwapPolarization)
    if g == "CSWAP":
        return Operation(C.CSwapPolarization)
    if g.startswith("BS"):
        return Operation(C.NonPolarizingBeamSplitter, eta=int(g[2:]) * pi / 4)
    raise KeyError(g)


def make_kron_operation(gs: List[str], kinds: List[str]) -> Any:
    """User expression ('kron', a0, a1, ...) over operands of arbitrary kinds."""
    import jax.numpy as jnp

    from photon_weave.operation import CompositeOperationType, Operation
    from photon_weave.state.custom_state import CustomState
    from photon_weave.state.fock import Fock
    from photon_weave.state.polarization import Polarization

    tmap = {"F": Fock, "P": Polarization, "C": CustomState}
    ctx = {}
    for j, g in enumerate(gs):
        m = gate_matrix(g)

        def mk(dims: List[int], _m: np.ndarray = m, _j: int = j, _k: str = kinds[j]) -> Any:
            # only Fock operands have a dimension that varies; others keep their own size
            d = int(dims[_j]) if _k == "F" else _m.shape[0]
            if d <= _m.shape[0]:
                return jnp.array(_m[:d, :d])
            out = np.eye(d, dtype=complex)
            out[: _m.shape[0], : _m.shape[0]] = _m
            return jnp.array(out)

        ctx[f"a{j}"] = mk
    expr = ("kron",) + tuple(f"a{j}" for j in range(len(gs)))
    return Operation(
        CompositeOperationType.Expression,
        expr=expr,
        context=ctx,
        state_types=tuple(tmap[k] for k in kinds),
    )

"""
Conformance direction B, judging side: run TLC on spec/PWTrace.tla for recorded ndjson traces and
turn the printed clause verdicts into violation records.
"""

from __future__ import annotations

import json
import os
import re
import subprocess
import time
from concurrent.futures import ThreadPoolExecutor
from typing import Any, Dict, List, Tuple

from . import tlcrun
from .tlcrun import OUT

ROOT = os.path.normpath(os.path.join(os.path.dirname(os.path.abspath(__file__)), ".."))
PY = "/venv/bin/python"

CLAUSE_PROP = {
    "MergeUnifies": "C13", "OneHome": "C13", "IndexNamesHome": "C13", "HandlesAgree": "C13", "BackPointers": "C13",
    "NoDupNoEmpty": "C13", "Isolation": "C13",
    "TagMatchesRepr": "C07", "ShapeIsProduct": "C07", "MembersShareLevel": "C07", "NumericOK": "C07",
    "MeasuredGone": "C05", "OnlyMeasurementDestroys": "C05", "OutcomeKeys": "C05", "DestroyedRejected": "C05",
    "RejectedIsNoop": "C17", "StructuralKeepsJoint": "C02", "ResizeReturn": "C10",
    "CutoffAdequate": "C10", "ChannelMatchesModel": "C06",
    "BystanderUntouched": "C20", "MergeOnlyAddressed": "C20", "SingleNeverGrows": "C20", "MeasuredLeaves": "C20",
    "KeyFresh": "C14", "OpStable": "C15", "OpParamsStable": "C15", "UserArraysUntouched": "C15",
}
# clauses that describe the state after the call: once broken they stay broken, only the first
# line of a trace on which they fail names the culprit
STATE_CLAUSES = {"OneHome", "IndexNamesHome", "HandlesAgree", "BackPointers", "NoDupNoEmpty", "TagMatchesRepr",
                 "ShapeIsProduct", "MembersShareLevel", "NumericOK", "MeasuredGone"}
CLAUSE_RE = re.compile(r'^<<"CLAUSE", (-?\d+), (\d+), "(\w+)">>')


def run_drivers(seed: int, nprog: int, nsteps: int, procs: int, outdir: str, profile: str = "default") -> List[str]:
    os.makedirs(outdir, exist_ok=True)
    env = dict(os.environ)
    env["PYTHONPATH"] = "/repo:" + ROOT
    env["PHOTON_WEAVE_VERIF"] = "1"
    env["PYTHONHASHSEED"] = "0"
    env["VERIF_DRIVER_PROFILE"] = profile
    per = max(1, (nprog + procs - 1) // procs)

    def one(k: int) -> str:
        path = os.path.join(outdir, f"drv{k}.ndjson")
        p = subprocess.run([PY, "-m", "harness.drivers", str(seed * 64 + k), str(per), str(nsteps), path],
                           cwd=ROOT, env=env, capture_output=True, text=True)
        if p.returncode != 0:
            raise RuntimeError(f"driver {k} failed:\n{p.stderr[-2000:]}")
        return path

    with ThreadPoolExecutor(max_workers=procs) as ex:
        return list(ex.map(one, range(procs)))


def run_grid(kind: str, seed: int, thin: int, procs: int, outdir: str) -> List[str]:
    """deterministic scenario grids for off-lattice requests (harness/grid.py), recorded through the tracer"""
    os.makedirs(outdir, exist_ok=True)
    env = dict(os.environ)
    env["PYTHONPATH"] = "/repo:" + ROOT
    env["PHOTON_WEAVE_VERIF"] = "1"
    env["PYTHONHASHSEED"] = "0"

    def one(k: int) -> str:
        path = os.path.join(outdir, f"grid_{kind}{k}.ndjson")
        p = subprocess.run([PY, "-m", "harness.grid", kind, str(k), str(procs), path, str(thin), str(seed)],
                           cwd=ROOT, env=env, capture_output=True, text=True)
        if p.returncode != 0:
            raise RuntimeError(f"grid {kind} part {k} failed:\n{p.stderr[-2000:]}")
        return path

    with ThreadPoolExecutor(max_workers=procs) as ex:
        return list(ex.map(one, range(procs)))


def validate(files: List[str], procs: int = 8) -> Tuple[List[Dict[str, Any]], Dict[str, int]]:
    """TLC over every trace file.  Returns (failures, stats); a failure = first line of a trace
    on which a clause is violated (every line for action clauses)."""
    t0 = time.time()

    def one(path: str) -> Tuple[str, str]:
        if os.path.getsize(path) == 0:
            return path, '<<"CONSUMED", 0>>'
        rc, out = tlcrun.tlc("PWTrace", "PWTrace.cfg", ["-workers", "1"], timeout=3600, env={"TRACE_FILE": path})
        return path, out

    with ThreadPoolExecutor(max_workers=procs) as ex:
        outs = list(ex.map(one, files))
    failures: List[Dict[str, Any]] = []
    lines = 0
    for path, out in outs:
        m = re.search(r'<<"CONSUMED", (\d+)>>', out)
        nl = sum(1 for _ in open(path))
        if not m or int(m.group(1)) != nl or ("Error:" in out and "CONSUMED" not in out):
            raise tlcrun.TLCError(f"trace validation did not consume {path} ({nl} lines):\n{out[-3000:]}")
        if "Error:" in out:
            raise tlcrun.TLCError(f"trace validation failed on {path}:\n{out[-3000:]}")
        lines += nl
        hits: Dict[Tuple[int, str], List[int]] = {}
        for ln in out.splitlines():
            mm = CLAUSE_RE.match(ln)
            if mm:
                hits.setdefault((int(mm.group(1)), mm.group(3)), []).append(int(mm.group(2)))
        if not hits:
            continue
        recs: Dict[Tuple[int, int], Dict[str, Any]] = {}
        want = set()
        for (tid, clause), seqs in hits.items():
            for s in ([min(seqs)] if clause in STATE_CLAUSES else seqs):
                want.add((tid, s))
        with open(path) as f:
            for ln in f:
                r = json.loads(ln)
                if (r["tid"], r["seq"]) in want:
                    recs[(r["tid"], r["seq"])] = r
        for (tid, clause), seqs in hits.items():
            for s in ([min(seqs)] if clause in STATE_CLAUSES else sorted(seqs)):
                r = recs[(tid, s)]
                failures.append(make_violation(clause, r, path))
    return failures, {"lines": lines, "files": len(files), "wall_s": round(time.time() - t0, 1)}


def make_violation(clause: str, r: Dict[str, Any], path: str) -> Dict[str, Any]:
    ev = r["ev"]
    cells = []
    for s in ev.get("addr", []):
        for x in r["pre"]["subs"]:
            if x["id"] == s:
                home = "gone" if x["ms"] else ("own" if x["rp"] != "none" else ("env" if len(x["ix"]) == 1 else "ps"))
                cells.append(f"{x['k']}:{home}:{x['lv']}")
    props = [CLAUSE_PROP[clause]]
    # a measurement that leaves the bookkeeping of the subsystems it touched broken also breaks
    # "retires measured subsystems correctly ... all other subsystems remain fully usable"
    if clause in ("OneHome", "IndexNamesHome", "MembersShareLevel", "NoDupNoEmpty", "BackPointers"):
        if ev["a"] == "measure":
            props.append("C05")
        elif ev["a"] == "measure_POVM":
            props.append("C09")
    return {"props": props, "kind": clause, "step": r["seq"], "a": ev["a"], "en": ev["entry"],
            "g": None, "cell": ",".join(cells), "flags": {"sep": ev.get("sep"), "destr": ev.get("destr"), "res": ev["res"]},
            "detail": f"clause {clause} violated at line tid={r['tid']} seq={r['seq']} of {os.path.basename(path)}: "
                      f"{ev['a']}/{ev['entry']} addr={ev.get('addr')} res={ev['res']} {ev.get('exc', '')}",
            "tid": r["tid"], "file": path}


def run_repo_tests(outdir: str) -> List[str]:
    """The repository's own test-suite under the tracer (pytest plugin, nothing in /repo edited)."""
    os.makedirs(outdir, exist_ok=True)
    env = dict(os.environ)
    env["PYTHONPATH"] = "/repo:" + ROOT
    env["PHOTON_WEAVE_VERIF"] = "1"
    env["VERIF_TRACE_DIR"] = outdir
    p = subprocess.run([PY, "-m", "pytest", "-q", "-p", "no:cacheprovider", "-p", "harness.pytest_plugin", "-x", "--no-header",
                        "--timeout=900", "--continue-on-collection-errors", "tests"], cwd="/repo", env=env,
                       capture_output=True, text=True)
    files = sorted(os.path.join(outdir, f) for f in os.listdir(outdir) if f.endswith(".ndjson"))
    if not files:
        raise RuntimeError("the pytest plugin recorded nothing:\n" + p.stdout[-2000:] + p.stderr[-2000:])
    return files

"""
Entry point of every check:  python -m harness.check <ID> [--quick|--thorough] [--replay PATH]

Exit status: 0 = property held on everything explored (known findings are printed, not alarms)
             1 = a violation that known_findings.json does not list (VIOLATION line printed)
             2 = the machinery itself failed (TLC error, worker crash, nothing explored)
"""

from __future__ import annotations

import argparse
import hashlib
import json
import os
import sys
import time
from typing import Any, Dict, List, Tuple

HERE = os.path.dirname(os.path.abspath(__file__))
ROOT = os.path.normpath(os.path.join(HERE, ".."))
sys.path.insert(0, ROOT)

from harness import configs, findings, pool, tlcrun  # noqa: E402
from harness.plans import REPLAY_PLANS  # noqa: E402

OUT = tlcrun.OUT
EVID = os.environ.get("VERIF_EVIDENCE_DIR") or os.path.join(ROOT, "evidence")     # (seed regression runs write elsewhere)


class Machinery(Exception):
    pass


def ensure_speclib() -> None:
    path = os.path.join(OUT, "speclib.json")
    src = [os.path.join(tlcrun.SPEC, f) for f in ("Gates.tla", "Ring.tla", "Tensor.tla", "MC_Lib.tla")]
    if os.path.exists(path) and all(os.path.getmtime(path) >= os.path.getmtime(s) for s in src):
        return
    rc, out = tlcrun.tlc("MC_Lib", "MC_Lib.cfg", ["-workers", "1"], timeout=600, cwd=OUT)
    if not os.path.exists(path) or tlcrun.failed(out):
        raise Machinery("exporting the operator library from Gates.tla failed:\n" + out[-2000:])


def compact(beh: List[Dict[str, Any]]) -> List[str]:
    out = []
    for r in beh:
        s = f"{r['a']}/{r.get('en')}"
        for k in ("g", "t", "sep", "destr", "out", "n", "b", "f", "gc", "final", "lv", "pm"):
            if k in r:
                s += f" {k}={json.dumps(r[k])}"
        if r.get("rej"):
            s += " REJECTED"
        out.append(s)
    return out


def write_replay(pid: str, beh: Any, v: Dict[str, Any]) -> str:
    d = os.path.join(OUT, "replays")
    os.makedirs(d, exist_ok=True)
    key = hashlib.md5(json.dumps([v["kind"], v["a"], v["en"], str(v["g"]), v["cell"], v["flags"]],
                                 sort_keys=True).encode()).hexdigest()[:8]
    if beh == "ctwin":
        path = os.path.join(d, f"{pid}_{v['kind']}_{v['tid']}.ndjson")
        with open(v["file"]) as src, open(path, "w") as dst:
            for ln in src:
                if json.loads(ln)["pair"] == v["tid"]:
                    dst.write(ln)
        return path
    if beh is None:
        # a recorded execution: keep the lines of that trace up to the failing one
        path = os.path.join(d, f"{pid}_{v['kind']}_{v['a']}_{key}.ndjson")
        with open(v["file"]) as src, open(path, "w") as dst:
            for ln in src:
                r = json.loads(ln)
                if r["tid"] == v["tid"] and r["seq"] <= v["step"]:
                    dst.write(ln)
        return path
    path = os.path.join(d, f"{pid}_{v['kind']}_{v['a']}_{key}.json")
    with open(path, "w") as f:
        json.dump({"property": pid, "violation": v, "behaviour": beh[: v["step"] + 1]}, f)
    return path


def stratified(traces: List[List[Dict[str, Any]]], n: int, seed: int) -> List[List[Dict[str, Any]]]:
    """Deterministic sample of n behaviours that spreads over (request kind, entry, targets, flags, scenario)."""
    import random

    if len(traces) <= n:
        return list(traces)
    rng = random.Random(seed)
    groups: Dict[str, List[List[Dict[str, Any]]]] = {}
    for t in traces:
        last = t[-1]
        key = json.dumps([last["a"], last.get("en"), last.get("t"), last.get("g"), last.get("sep"), last.get("destr"),
                          last.get("n"), last.get("final")])
        groups.setdefault(key, []).append(t)
    keys = sorted(groups)
    rng.shuffle(keys)
    # requests naming several subsystems first: they are the ones that merge / reorder / bind operand order
    keys.sort(key=lambda k: -len(json.loads(k)[2] or []))
    for k in keys:
        rng.shuffle(groups[k])
    out: List[List[Dict[str, Any]]] = []
    while len(out) < n:
        progressed = False
        for k in keys:
            if groups[k] and len(out) < n:
                out.append(groups[k].pop())
                progressed = True
        if not progressed:
            break
    return out


def run_replay_check(pid: str, tier: str, seed: int) -> int:
    t0 = time.time()
    plan = REPLAY_PLANS[pid]
    ensure_speclib()
    # ---- 1. the specification itself: exhaustive TLC over a small universe
    ex_total = {"generated": 0, "distinct": 0, "depth": 0}
    ex_desc = []
    for (u, depth, fam) in plan["exhaustive"][tier]:
        cfg = configs.make_cfg(f"{pid}_{tier}_ex_{u}.cfg", u, depth, False, families=fam, ops="X", exhaustive=True,
                               init=plan.get("ex_init", {}).get(u, u + "_ExInit"))
        try:
            st, _ = tlcrun.check("MC", cfg, workers=16, timeout=plan.get("ex_timeout", 1500))
        except tlcrun.TLCError as ex:
            print(f"SPEC-LEVEL FAILURE property={pid}: {ex}")
            raise Machinery("TLC reported an error / a violated design property on the specification")
        ex_total["generated"] += st["generated"]
        ex_total["distinct"] += st["distinct"]
        ex_total["depth"] = max(ex_total["depth"], st["depth"])
        ex_desc.append(f"{u} depth {depth} families {fam}: {st['distinct']} distinct / {st['generated']} generated")
    # ---- 2. behaviours for the implementation
    behaviours: List[List[Dict[str, Any]]] = []
    sim_states = 0
    gen_desc = []
    for k, g in enumerate(plan["simulate"][tier]):
        cfg = configs.make_cfg(f"{pid}_{tier}_sim{k}.cfg", g["u"], g["depth"], True, families=g.get("fam", "Fam_All"),
                               ops=g.get("ops", "All"), init=g.get("init"), overrides=g.get("over"),
                               next_=g.get("next", "NextSim"))
        tr, st = tlcrun.simulate("MC", cfg, num=g["num"], depth=g["depth"], seed=seed * 97 + k, procs=8)
        behaviours.extend(tr)
        sim_states += st["states"]
        gen_desc.append(f"{g['u']} x{len(tr)} depth {g['depth']} {g.get('fam', 'Fam_All')} {g.get('next', 'NextSim')}")
    # ---- 2b. scripted cover: on prepared superposition / layout / entanglement scenarios TLC enumerates
    #          EVERY request of the focus families; a stratified sample of them is replayed
    cover_total = 0
    for k, g in enumerate(plan.get("cover", {}).get(tier, [])):
        cfg = configs.make_cfg(f"{pid}_{tier}_cover{k}.cfg", g["u"], g.get("depth", 1), False, families=g.get("fam", "Fam_All"),
                               ops=g.get("ops", "All"), init=g.get("init", g["u"] + "_ExInit"), overrides=g.get("over"),
                               scripts=g["scripts"], focus=g["focus"], cover=True)
        rc, out = tlcrun.tlc("MC", cfg, ["-workers", "8"], timeout=2400)
        err = tlcrun.failed(out)
        if err:
            print(out[-2000:])
            raise Machinery(f"scripted cover generation failed: {err}")
        tr = tlcrun.parse_traces(out)
        nscr, dead = tlcrun.dead_scripts(out, tr)
        if dead:
            raise Machinery(f"{len(dead)} of {nscr} scripts of {g['scripts']} were never completed by the specification, first: "
                            + json.dumps(dead[0])[:600])
        cover_total += len(tr)
        picked = stratified(tr, g["sample"], seed + k)
        behaviours.extend(picked)
        gen_desc.append(f"cover {g['u']} scripts {g['scripts']} focus {g['focus']}: {len(tr)} complete behaviours enumerated, "
                        f"{len(picked)} replayed")
    if len(behaviours) < 4:
        raise Machinery(f"only {len(behaviours)} behaviours were generated")
    # ---- 3. replay into the real library
    trace_dir = os.path.join(OUT, f"traces_{pid}_{tier}")
    import shutil

    shutil.rmtree(trace_dir, ignore_errors=True)
    os.makedirs(trace_dir)
    kf = findings.load()
    results = pool.replay_all(behaviours, procs=14, trace_dir=trace_dir, extra_env=plan.get("env", {}))
    herr = [r for r in results if r.get("harness_error")]
    if herr:
        print(herr[0]["harness_error"])
        raise Machinery(f"{len(herr)} behaviours could not be replayed because the harness failed")
    # ---- 4. verdicts
    known: Dict[str, int] = {}
    unknown: List[Tuple[Dict[str, Any], List[Dict[str, Any]]]] = []
    completed = other_prop = notfollowed = 0
    steps = 0
    cells = set()
    for r, beh in zip(results, behaviours):
        steps += r["nsteps"]
        for c in r["cells"][: r["nsteps"] + 1]:
            cells.add(c)
        if r["aborted"]:
            notfollowed += 1
        if not r["viol"]:
            completed += 1
            continue
        mine = [v for v in r["viol"] if pid in v["props"]
                or (plan.get("claims_actions") and v["a"] in plan["actions"]
                    and not any(findings.classify(p, v, kf) for p in v["props"]))]   # not a recorded finding of its owner
        if not mine:
            other_prop += 1
            if other_prop <= 3:
                v0 = r["viol"][0]
                np_ = write_replay("NOTE" + v0["props"][0], beh, v0)
                print(f"NOTE: replay={np_}")
                print(f"NOTE: a behaviour stopped at a divergence owned by {v0['props']} (not judged here): "
                      f"{v0['kind']} {v0['a']}/{v0['en']} g={v0['g']} cell={v0['cell']}: {v0['detail'][:160]}")
            continue
        for v in mine:
            f = findings.classify(pid, v, kf)
            if f is not None:
                known[f["id"]] = known.get(f["id"], 0) + 1
            else:
                unknown.append((v, beh))
    # ---- 4b. the recorded executions, judged by TLC against the structural contract
    from harness import tracecheck

    tfiles = sorted(os.path.join(trace_dir, f) for f in os.listdir(trace_dir) if f.endswith(".ndjson"))
    tfail, tstats = tracecheck.validate(tfiles)
    for v in tfail:
        if pid not in v["props"]:
            continue
        f = findings.classify(pid, v, kf)
        if f is not None:
            known[f["id"]] = known.get(f["id"], 0) + 1
        else:
            unknown.append((v, None))
    # ---- 4b'. continuous-parameter programs (requests outside the exact lattice): recorded, and judged by TLC on the
    #           clauses of this property (C10: CutoffAdequate, ResizeReturn; C06: ChannelMatchesModel)
    drv_lines = 0
    if plan.get("drivers"):
        nprog, nsteps, profile = plan["drivers"][tier]
        dfiles = tracecheck.run_drivers(seed, nprog, nsteps, procs=12, outdir=os.path.join(trace_dir, "drv"), profile=profile)
        gkind = {"fock": "cut", "kraus": "kraus"}[profile]
        thin = {"quick": {"cut": 4, "kraus": 2}, "thorough": {"cut": 1, "kraus": 1}}[tier][gkind]
        dfiles += tracecheck.run_grid(gkind, seed, thin, procs=14, outdir=os.path.join(trace_dir, "drv"))
        dfail, dstats = tracecheck.validate(dfiles)
        drv_lines = dstats["lines"]
        gen_desc.append(f"{nprog} continuous-parameter programs x {nsteps} steps (profile {profile}) and the scenario grid "
                        f"'{gkind}' (every {thin}. scenario): {drv_lines} recorded calls judged by TLC")
        for v in dfail:
            if pid not in v["props"]:
                continue
            f = findings.classify(pid, v, kf)
            if f is not None:
                known[f["id"]] = known.get(f["id"], 0) + 1
            else:
                unknown.append((v, None))
    # ---- 4c. twin executions on continuous-parameter programs, judged by CTwin.tla:
    #          (C08) contraction switch on / off;  (C15) one Operation object reused / a fresh object per application
    ctw_pairs = 0
    for twin_key, twin_mod, twin_kind, twin_what in (
            ("ctwins", "harness.ctwins", "ContractionNeutral", "joint state with contraction on differs from contraction off"),
            ("rtwins", "harness.rtwins", "ReuseNeutral", "joint state with ONE reused Operation object per (type, parameters) differs from the run "
                                                         "that constructs a fresh Operation for every application")):
        if not plan.get(twin_key):
            continue
        import re
        from concurrent.futures import ThreadPoolExecutor
        import subprocess

        nprog, nst = plan[twin_key][tier]
        procs = min(12, nprog)
        per = max(1, nprog // procs)
        env = dict(os.environ)
        env.update({"PYTHONPATH": "/repo:" + ROOT, "PHOTON_WEAVE_VERIF": "1", "PYTHONHASHSEED": "0"})

        def one(k: int) -> str:
            path = os.path.join(trace_dir, f"{twin_key}{k}.ndjson")
            p = subprocess.run(["/venv/bin/python", "-m", twin_mod, str(seed * 40 + k), str(per), str(nst), path],
                               cwd=ROOT, env=env, capture_output=True, text=True)
            if p.returncode != 0:
                raise Machinery(f"twin driver {twin_mod} failed:\n" + p.stderr[-1500:])
            return path

        with ThreadPoolExecutor(max_workers=procs) as ex:
            cfiles = list(ex.map(one, range(procs)))
        for pth in cfiles:
            rc, out = tlcrun.tlc("CTwin", "CTwin.cfg", ["-workers", "1"], timeout=1200, env={"TRACE_FILE": pth})
            m = re.search(r'<<"CONSUMED", (\d+)>>', out)
            if not m or "Error:" in out:
                raise Machinery(f"twin validation ({twin_key}) failed:\n" + out[-1500:])
            ctw_pairs += int(m.group(1))
            for mm in re.finditer(r'<<"CTWIN", (\d+), (\d+), "(\w+)">>', out):
                v = {"props": [pid], "kind": twin_kind, "step": int(mm.group(2)), "a": mm.group(3), "en": None, "g": None,
                     "cell": "", "flags": {}, "tid": int(mm.group(1)), "file": pth,
                     "detail": f"program {mm.group(1)}: {twin_what} after step {mm.group(2)} ({mm.group(3)})"}
                f = findings.classify(pid, v, kf)
                if f is not None:
                    known[f["id"]] = known.get(f["id"], 0) + 1
                else:
                    unknown.append((v, "ctwin"))
    for fid, n in sorted(known.items()):
        f = [x for x in kf if x["id"] == fid][0]
        print(f"KNOWN-FINDING: property={pid} {fid} {f['what']} (hit {n}x)")
    seen = set()
    nviol = 0
    for v, beh in unknown:
        path = write_replay(pid, beh, v)
        if path in seen:
            continue
        seen.add(path)
        nviol += 1
        print(f"VIOLATION property={pid} replay={path}")
        print(f"  {v['kind']} at step {v['step']} {v['a']}/{v['en']} g={v['g']} cell={v['cell']} flags={v['flags']}: {v['detail']}")
    relevant_cells = sorted(c for c in cells if c.split("/")[0] in plan["actions"])
    evidence = {
        "property_id": pid, "tier": tier, "seed": seed, "level": plan.get("level", "model_checking"),
        "coverage": {
            "states": ex_total["distinct"], "transitions": ex_total["generated"],
            "traces_validated_against_impl": len(behaviours),
            "samples": [compact(b) for b in behaviours[:3]],
            "exhaustive": False,
            "spec_exhaustive_runs": ex_desc, "spec_depth": ex_total["depth"],
            "behaviours_generated": gen_desc, "simulation_states": sim_states,
            "scripted_cover_behaviours_enumerated": cover_total,
            "behaviours_replayed_to_the_end": completed,
            "behaviours_stopped_at_known_finding": sum(known.values()),
            "behaviours_stopped_by_other_property": other_prop,
            "behaviours_not_followed_open_choice": notfollowed,
            "implementation_steps_compared": steps,
            "trace_lines_validated_by_tlc": tstats["lines"],
            "contraction_twin_programs_judged_by_tlc": ctw_pairs,
            "distinct_nontrivial": len(relevant_cells),
            "evaluations": steps,
            "rule": "one case = (action, entry point, kind:storage:level of each addressed subsystem as observed "
                    "in the implementation before the call); counted only for the actions this property is about: "
                    + ",".join(sorted(plan["actions"])),
            "cells_sample": relevant_cells[:40],
        },
        "assumptions": [
            "amplitudes on the Z[i,sqrt2] lattice only (angles multiples of pi/4, Fock occupancy <= 2)",
            "the joint density operator is rebuilt from the object graph by harness/project.py",
            "measurement outcomes are forced through the patched sampler; subjects come from the announce hook",
        ],
        "wall_s": round(time.time() - t0, 1), "violations": nviol,
        "known_findings_hit": known,
    }
    os.makedirs(EVID, exist_ok=True)
    with open(os.path.join(EVID, f"{pid}.json"), "w") as f:
        json.dump(evidence, f, indent=1)
    print(f"{pid} {tier}: spec {ex_total['distinct']} states / {ex_total['generated']} transitions; "
          f"{len(behaviours)} behaviours replayed, {completed} to the end, {steps} steps compared, "
          f"{len(relevant_cells)} distinct cells, {nviol} violations, {sum(known.values())} known-finding hits, "
          f"{evidence['wall_s']} s")
    return 1 if nviol else 0


def run_trace_check(pid: str, tier: str, seed: int) -> int:
    """Properties decided on recorded executions (direction B): design-level invariants on the
    specification, then TLC judges every line of (i) replays of TLC behaviours, (ii) random
    continuous-parameter programs, (iii, thorough) the repository's own test-suite."""
    from harness import tracecheck
    from harness.plans import TRACE_PLANS
    import shutil

    t0 = time.time()
    plan = TRACE_PLANS[pid]
    ensure_speclib()
    ex_total = {"generated": 0, "distinct": 0, "depth": 0}
    ex_desc = []
    for (u, depth, fam) in plan["exhaustive"][tier]:
        cfg = configs.make_cfg(f"{pid}_{tier}_ex_{u}.cfg", u, depth, False, families=fam, ops="X", exhaustive=True,
                               init=u + "_ExInit")
        st, _ = tlcrun.check("MC", cfg, workers=16, timeout=1500)
        ex_total["generated"] += st["generated"]
        ex_total["distinct"] += st["distinct"]
        ex_total["depth"] = max(ex_total["depth"], st["depth"])
        ex_desc.append(f"{u} depth {depth} families {fam}: {st['distinct']} distinct / {st['generated']} generated")
    if plan.get("layout"):
        # the code-shaped registry model: every history of composite creation / merge (in argument order) / combine /
        # reorder / measure up to the bound; the second configuration has four handles and no custom state (merge chains)
        runs = {"quick": [((2, 1, 2, 3), True), ((2, 0, 4, 4), False)],
                "thorough": [((2, 1, 2, 4), True), ((2, 1, 3, 3), True), ((2, 0, 4, 4), False)]}[tier]
        for (ne, nc, mh, ms), steps in runs:
            lcfg = os.path.join(OUT, f"{pid}_{tier}_layout_{ne}{nc}{mh}{ms}.cfg")
            with open(lcfg, "w") as fh:
                fh.write(f'CONSTANTS\n  NEnvL = {ne}\n  NCus = {nc}\n  MaxH = {mh}\n  MaxSteps = {ms}\n  Fault = "none"\n'
                         "INIT LInit\nNEXT LNext\nINVARIANT Truthful\n" + ("PROPERTY StepClauses\n" if steps else "") + "CHECK_DEADLOCK FALSE\n")
            st, _ = tlcrun.check("PWLayout", lcfg, workers=16, timeout=3000)
            ex_total["generated"] += st["generated"]
            ex_total["distinct"] += st["distinct"]
            ex_desc.append(f"PWLayout {ne} envelopes + {nc} custom, {mh} handles, {ms} calls"
                           f"{' (state and step clauses)' if steps else ' (state clauses)'}: {st['distinct']} distinct / {st['generated']} generated")
        # non-vacuity: each defect the pinned code had must be refuted by TLC on the model
        fault_cfg = {"no_refresh_on_merge": (2, 0, 3, 5), "refresh_before_remove": (2, 1, 2, 4),
                     "dup_on_merge": (2, 0, 4, 5), "stale_handles": (2, 0, 4, 4)}
        for fault in plan.get("layout_faults", {}).get(tier, []):
            ne, nc, mh, ms = fault_cfg[fault]
            fcfg = os.path.join(OUT, f"{pid}_{tier}_layout_{fault}.cfg")
            with open(fcfg, "w") as fh:
                fh.write(f'CONSTANTS\n  NEnvL = {ne}\n  NCus = {nc}\n  MaxH = {mh}\n  MaxSteps = {ms}\n  Fault = "{fault}"\n'
                         "INIT LInit\nNEXT LNext\nINVARIANT Truthful\nCHECK_DEADLOCK FALSE\n")
            rc, out = tlcrun.tlc("PWLayout", fcfg, ["-workers", "16"], timeout=3000)
            if "Invariant Truthful is violated" not in out:
                raise Machinery(f"PWLayout with fault {fault} was not refuted by TLC: the invariants are vacuous")
            ex_desc.append(f"PWLayout fault '{fault}': refuted by TLC (Truthful violated)")
    trace_dir = os.path.join(OUT, f"traces_{pid}_{tier}")
    shutil.rmtree(trace_dir, ignore_errors=True)
    os.makedirs(trace_dir)
    behaviours: List[List[Dict[str, Any]]] = []
    gen_desc = []
    for k, g in enumerate(plan["simulate"][tier]):
        cfg = configs.make_cfg(f"{pid}_{tier}_sim{k}.cfg", g["u"], g["depth"], True, families=g.get("fam", "Fam_All"),
                               ops=g.get("ops", "All"), init=g.get("init"), overrides=g.get("over"),
                               next_=g.get("next", "NextSim"))
        tr, st = tlcrun.simulate("MC", cfg, num=g["num"], depth=g["depth"], seed=seed * 97 + k, procs=8)
        behaviours.extend(tr)
        gen_desc.append(f"{g['u']} x{len(tr)} depth {g['depth']} {g.get('fam', 'Fam_All')}")
    for k, g in enumerate(plan.get("cover", {}).get(tier, [])):
        cfg = configs.make_cfg(f"{pid}_{tier}_cover{k}.cfg", g["u"], g.get("depth", 1), False, families=g.get("fam", "Fam_All"),
                               ops=g.get("ops", "All"), init=g.get("init", g["u"] + "_ExInit"), overrides=g.get("over"),
                               scripts=g["scripts"], focus=g["focus"], cover=True)
        rc, out = tlcrun.tlc("MC", cfg, ["-workers", "8"], timeout=2400)
        err = tlcrun.failed(out)
        if err:
            print(out[-2000:])
            raise Machinery(f"scripted cover generation failed: {err}")
        tr = tlcrun.parse_traces(out)
        nscr, dead = tlcrun.dead_scripts(out, tr)
        if dead:
            raise Machinery(f"{len(dead)} of {nscr} scripts of {g['scripts']} were never completed by the specification, first: "
                            + json.dumps(dead[0])[:600])
        picked = stratified(tr, g["sample"], seed + k)
        behaviours.extend(picked)
        gen_desc.append(f"cover {g['u']} scripts {g['scripts']} focus {g['focus']}: {len(tr)} enumerated, {len(picked)} replayed")
    results = pool.replay_all(behaviours, procs=10, trace_dir=trace_dir) if behaviours else []
    herr = [r for r in results if r.get("harness_error")]
    if herr:
        print(herr[0]["harness_error"])
        raise Machinery(f"{len(herr)} behaviours could not be replayed because the harness failed")
    nprog, nsteps = plan["drivers"][tier]
    dfiles = tracecheck.run_drivers(seed, nprog, nsteps, procs=12, outdir=os.path.join(trace_dir, "drv")) if nprog else []
    tfiles = sorted(os.path.join(trace_dir, f) for f in os.listdir(trace_dir) if f.endswith(".ndjson")) + dfiles
    if tier == "thorough" and plan.get("repo_tests", True):
        tfiles += tracecheck.run_repo_tests(os.path.join(trace_dir, "repo"))
    tfail, tstats = tracecheck.validate(tfiles, procs=12)
    if tstats["lines"] < 50:
        raise Machinery(f"only {tstats['lines']} trace lines were recorded")
    kf = findings.load()
    known: Dict[str, int] = {}
    nviol = 0
    seen = set()
    for v in tfail:
        if pid not in v["props"]:
            continue
        f = findings.classify(pid, v, kf)
        if f is not None:
            known[f["id"]] = known.get(f["id"], 0) + 1
            continue
        path = write_replay(pid, None, v)
        if path in seen:
            continue
        seen.add(path)
        nviol += 1
        print(f"VIOLATION property={pid} replay={path}")
        print(f"  {v['detail']} cell={v['cell']} flags={v['flags']}")
    for fid, n in sorted(known.items()):
        f = [x for x in kf if x["id"] == fid][0]
        print(f"KNOWN-FINDING: property={pid} {fid} {f['what']} (hit {n}x)")
    # coverage: distinct (call, entry, layout of addressed subsystems) seen in the recorded lines
    cells = set()
    sample_lines = []
    ntraces = set()
    for p in tfiles:
        with open(p) as fh:
            for ln in fh:
                r = json.loads(ln)
                ev = r["ev"]
                ntraces.add((p, r["tid"]))
                lay = []
                for s in ev.get("addr", []):
                    for x in r["pre"]["subs"]:
                        if x["id"] == s:
                            lay.append(f"{x['k']}:{'own' if x['rp'] != 'none' else ('env' if len(x['ix']) == 1 else 'ps')}:{x['lv']}")
                cells.add(f"{ev['a']}/{ev['entry']}/{','.join(lay)}/{ev['res']}")
                if len(sample_lines) < 6:
                    sample_lines.append({"tid": r["tid"], "seq": r["seq"], "event": ev})
    evidence = {
        "property_id": pid, "tier": tier, "seed": seed, "level": "model_checking",
        "coverage": {
            "states": ex_total["distinct"] + tstats["lines"], "transitions": ex_total["generated"] + tstats["lines"],
            "traces_validated_against_impl": len(ntraces),
            "samples": sample_lines,
            "exhaustive": False,
            "spec_exhaustive_runs": ex_desc,
            "trace_lines_validated_by_tlc": tstats["lines"],
            "trace_files": tstats["files"],
            "sources": {"replayed_tlc_behaviours": gen_desc, "random_programs": f"{nprog} programs x {nsteps} steps",
                        "repository_test_suite": tier == "thorough" and plan.get("repo_tests", True)},
            "clauses": sorted(k for k, v in tracecheck.CLAUSE_PROP.items() if v == pid),
            "distinct_nontrivial": len(cells), "evaluations": tstats["lines"],
            "rule": "one case = (public call, entry point, kind:storage:level of every addressed subsystem before the "
                    "call, ok/exception) among the recorded lines; every line is judged by every clause in TLC",
        },
        "assumptions": ["the projection (harness/tracer.py) reads the object graph truthfully",
                        "numeric flags (unit norm / trace, Hermitian, PSD) are computed in float64 with tolerance 1e-8"],
        "wall_s": round(time.time() - t0, 1), "violations": nviol, "known_findings_hit": known,
    }
    os.makedirs(EVID, exist_ok=True)
    with open(os.path.join(EVID, f"{pid}.json"), "w") as f:
        json.dump(evidence, f, indent=1)
    print(f"{pid} {tier}: spec {ex_total['distinct']} states; {tstats['lines']} recorded calls in {len(ntraces)} executions "
          f"judged by TLC, {len(cells)} distinct cells, {nviol} violations, {sum(known.values())} known-finding hits, "
          f"{evidence['wall_s']} s")
    return 1 if nviol else 0


def run_replay_file(path: str) -> int:
    import subprocess

    env = dict(os.environ)
    env["PYTHONPATH"] = "/repo:" + ROOT
    env["PHOTON_WEAVE_VERIF"] = "1"
    ensure_speclib()
    return subprocess.call(["/venv/bin/python", "-m", "harness.replay_file", path], cwd=ROOT, env=env)


def main() -> int:
    ap = argparse.ArgumentParser()
    ap.add_argument("pid")
    ap.add_argument("--quick", action="store_true")
    ap.add_argument("--thorough", action="store_true")
    ap.add_argument("--replay")
    a = ap.parse_args()
    tier = "thorough" if a.thorough else os.environ.get("VERIF_TIER", "quick")
    if tier not in ("quick", "thorough"):
        tier = "quick"
    seed = int(os.environ.get("VERIF_SEED", "1") or 1) % 100000
    os.makedirs(OUT, exist_ok=True)
    try:
        if a.pid == "SELFTEST":
            from harness import selftest

            return selftest.main()
        if a.replay:
            return run_replay_file(a.replay)
        if a.pid in REPLAY_PLANS:
            return run_replay_check(a.pid, tier, seed)
        from harness.plans import TRACE_PLANS

        if a.pid in TRACE_PLANS:
            return run_trace_check(a.pid, tier, seed)
        from harness import other_checks

        if a.pid in other_checks.CHECKS:
            return other_checks.CHECKS[a.pid](tier, seed)
        print(f"no check registered for {a.pid}")
        return 2
    except Machinery as ex:
        print(f"MACHINERY-FAILURE property={a.pid}: {ex}")
        return 2
    except tlcrun.TLCError as ex:
        print(f"MACHINERY-FAILURE property={a.pid}: {ex}")
        return 2
    except RuntimeError as ex:
        print(f"MACHINERY-FAILURE property={a.pid}: {ex}")
        return 2


if __name__ == "__main__":
    sys.exit(main())

"""
Conformance direction B, recording side: wrap the public API of photon_weave from outside and
write one ndjson line per OUTERMOST public call with the projected state before and after it.

Nothing in /repo is edited for this: classes are wrapped at import time by ``install()``; a
depth counter skips the library's own nested calls; the line is written in ``finally`` so the
error path is logged too.
"""

from __future__ import annotations

import functools
import hashlib
import json
import os
from typing import Any, Callable, Dict, List, Optional, Tuple

import numpy as np

from . import model_obs, project

JOINT_CAP = 600          # largest joint dimension for which the before/after density is compared


class Registry:
    """Every photon_weave object created while the tracer is installed, in creation order."""

    def __init__(self) -> None:
        self.subs: Dict[int, Any] = {}
        self.envs: Dict[int, Any] = {}
        self.handles: Dict[int, Any] = {}
        self.ops: Dict[int, Any] = {}
        self._ids: Dict[int, Tuple[str, int]] = {}
        self._keep: List[Any] = []
        self._cont_ids: Dict[int, int] = {}
        self._ps_ids: Dict[int, int] = {}
        self._keep_c: List[Any] = []
        self.model_dim: Dict[int, int] = {}
        self.user_arrays: List[Tuple[Any, str]] = []

    def reset(self) -> None:
        self.__init__()

    # world-like interface used by project.joint_density
    @property
    def order(self) -> List[int]:
        return sorted(self.subs)

    def id_of(self, obj: Any) -> Optional[int]:
        r = self._ids.get(id(obj))
        return r[1] if r and r[0] == "s" else None

    def any_id(self, obj: Any) -> Optional[Tuple[str, int]]:
        return self._ids.get(id(obj))

    def is_destroyed(self, i: int) -> bool:
        return bool(getattr(self.subs[i], "measured", False))

    def containers(self) -> List[Any]:
        from photon_weave.state.composite_envelope import CompositeEnvelope

        out, seen = [], set()
        for h in self.handles.values():
            c = CompositeEnvelope._containers.get(getattr(h, "uid", None))
            if c is not None and id(c) not in seen:
                seen.add(id(c))
                out.append(c)
        return out

    def add(self, kind: str, obj: Any) -> int:
        table = {"s": self.subs, "e": self.envs, "h": self.handles, "o": self.ops}[kind]
        if id(obj) in self._ids:
            return self._ids[id(obj)][1]
        n = len(table) + 1
        table[n] = obj
        self._ids[id(obj)] = (kind, n)
        self._keep.append(obj)
        if kind == "s":
            self.model_dim[n] = 1
        return n

    def cont_id(self, c: Any) -> int:
        if id(c) not in self._cont_ids:
            self._cont_ids[id(c)] = len(self._cont_ids) + 1
            self._keep_c.append(c)
        return self._cont_ids[id(c)]

    def ps_id(self, p: Any) -> int:
        if id(p) not in self._ps_ids:
            self._ps_ids[id(p)] = len(self._ps_ids) + 1
            self._keep_c.append(p)
        return self._ps_ids[id(p)]


REG = Registry()
_depth = 0
_seq = 0
_tid = 0
_sink: Optional[Any] = None
_draws: List[str] = []
_keysrc: List[str] = []
_enabled = True
_last_config_key: Optional[str] = None
_intent = "unknown"


def set_intent(x: str) -> None:
    global _intent
    _intent = x


# ------------------------------------------------------------------------------ projection
def _kind(obj: Any) -> str:
    n = type(obj).__name__
    return {"Fock": "F", "Polarization": "P", "CustomState": "C"}.get(n, "?")


def _state_fields(state: Any, lv: str = "") -> Dict[str, Any]:
    rp, shape = project.repr_kind(state)
    if shape == (1, 1) and lv == "M":
        rp = "mat"          # a 1 x 1 array is both a column vector and a matrix: believe the tag
    if rp == "int":
        n = int(state)
    elif rp == "enum":
        n = {"H": 0, "V": 1, "R": 2, "L": 3}.get(getattr(state, "value", "?"), -1)
    elif shape:
        n = int(shape[0])
    else:
        n = 0
    fl = project.numeric_flags(state)
    return {"rp": rp if rp in ("none", "int", "enum", "vec", "mat") else "other", "n": n,
            "fl": [fl["finite"], fl["unit"], fl["herm"], fl["psd"]], "dg": project.digest(state) if rp != "other" else "other"}


def _ix(idx: Any) -> List[int]:
    if idx is None:
        return []
    if isinstance(idx, (int, np.integer)) and not isinstance(idx, bool):
        return [int(idx)]
    try:
        return [int(x) for x in idx]
    except Exception:
        return [-9]


def _cont_of_handle(h: Any) -> Any:
    from photon_weave.state.composite_envelope import CompositeEnvelope

    return CompositeEnvelope._containers.get(getattr(h, "uid", None))


def _op_record(i: int, op: Any) -> Dict[str, Any]:
    ty = getattr(op, "_operation_type", None)
    kw = getattr(op, "kwargs", {}) or {}
    parts = []
    for k in sorted(kw):
        v = kw[k]
        try:
            if hasattr(v, "shape"):
                parts.append(f"{k}={project.digest(v)}")
            elif isinstance(v, dict):
                parts.append(f"{k}=dict:{sorted(v)}")
            else:
                parts.append(f"{k}={v!r}")
        except Exception:
            parts.append(f"{k}=?")
    # what THIS operation accepts; read the raw slot, never a property (observing must not trigger lazy copies)
    try:
        exp = object.__getattribute__(op, "_expected_base_state_types")
    except AttributeError:
        exp = None
    if exp is None:
        exp = getattr(ty, "expected_base_state_types", None)
    return {"id": i, "ty": f"{type(ty).__name__}.{getattr(ty, 'name', '?')}",
            "pd": hashlib.md5("|".join(parts).encode()).hexdigest()[:12],
            "exp": "" if exp is None else ",".join(getattr(t, "__name__", str(t)) for t in exp),
            "rn": bool(getattr(ty, "renormalize", False))}


def projection(reg: Registry = REG) -> Dict[str, Any]:
    from photon_weave.photon_weave import Config
    from photon_weave.state.composite_envelope import CompositeEnvelope

    env_of: Dict[int, int] = {}
    for e, env in reg.envs.items():
        for m in (getattr(env, "fock", None), getattr(env, "polarization", None)):
            r = reg.any_id(m)
            if r and r[0] == "s":
                env_of[r[1]] = e
    subs = []
    for i, s in reg.subs.items():
        ce = getattr(s, "composite_envelope", None) if hasattr(s, "composite_envelope") else getattr(s, "_composite_envelope", None)
        cc = 0
        if ce is not None:
            c = _cont_of_handle(ce)
            cc = reg.cont_id(c) if c is not None else -1
        rec = {"id": i, "k": _kind(s), "env": env_of.get(i, 0), "cc": cc, "ix": _ix(getattr(s, "index", None)),
               "lv": project.level_tag(getattr(s, "expansion_level", None)), "dim": int(getattr(s, "dimensions", -1)),
               "ms": bool(getattr(s, "measured", False))}
        rec.update(_state_fields(getattr(s, "state", None), rec["lv"]))
        subs.append(rec)
    envs = []
    for e, env in reg.envs.items():
        cc = 0
        cid = getattr(env, "composite_envelope_id", None)
        if cid is not None:
            c = CompositeEnvelope._containers.get(cid)
            cc = reg.cont_id(c) if c is not None else -1
        f = reg.any_id(getattr(env, "fock", None))
        p = reg.any_id(getattr(env, "polarization", None))
        rec = {"id": e, "f": f[1] if f else 0, "p": p[1] if p else 0,
               "lv": project.level_tag(getattr(env, "_expansion_level", None)) if getattr(env, "state", None) is not None else "-",
               "ms": bool(getattr(env, "measured", False)), "cc": cc}
        rec.update(_state_fields(getattr(env, "state", None), rec["lv"]))
        envs.append(rec)
    conts = []
    hnd = []
    by_cont: Dict[int, List[int]] = {}
    for h, hobj in reg.handles.items():
        uid = getattr(hobj, "uid", None)
        c = CompositeEnvelope._containers.get(uid)
        inst = CompositeEnvelope._instances.get(uid) or []
        cid = reg.cont_id(c) if c is not None else 0
        hnd.append({"id": h, "cont": cid, "reg": c is not None, "inst": any(x is hobj for x in inst)})
        if c is not None:
            by_cont.setdefault(cid, []).append(h)
    for c in reg.containers():
        cid = reg.cont_id(c)
        pss = []
        for ps in c.states:
            rec = {"pid": reg.ps_id(ps), "lv": project.level_tag(getattr(ps, "expansion_level", None)),
                   "mem": [(reg.id_of(o) or 0) for o in ps.state_objs]}
            rec.update(_state_fields(getattr(ps, "state", None), rec["lv"]))
            pss.append(rec)
        conts.append({"id": cid, "hs": by_cont.get(cid, []),
                      "envs": [(reg.any_id(e) or ("e", 0))[1] for e in c.envelopes],
                      "objs": [(reg.id_of(o) or 0) for o in c.state_objs], "ps": pss})
    ops = [_op_record(i, o) for i, o in reg.ops.items()]
    return {"subs": subs, "envs": envs, "conts": conts, "hnd": hnd, "ops": ops,
            "cfg": {"contr": bool(Config().contractions)}}


def _joint(reg: Registry) -> Any:
    live = [i for i in reg.order if not reg.is_destroyed(i)]
    total = 1
    for i in live:
        d = int(getattr(reg.subs[i], "dimensions", 1))
        total *= max(d, 1) if d > 0 else 4
    if total > JOINT_CAP:
        return "skip"
    try:
        rho, lv, dims = project.joint_density(reg)
        return (rho, lv, dims)
    except project.Unobservable:
        return "unobs"
    except Exception:
        return "unobs"


def _joint_cmp(a: Any, b: Any) -> str:
    if isinstance(a, str) or isinstance(b, str):
        return "skip" if "skip" in (a, b) else "unobs"
    ra, la, da = a
    rb, lb, db = b
    if la != lb:
        return "diff"
    if not la:
        return "same"
    t = [max(x, y) for x, y in zip(da, db)]
    err = float(np.max(np.abs(project.embed(ra, da, t) - project.embed(rb, db, t))))
    return "same" if np.isfinite(err) and err <= 1e-8 else "diff"


# ------------------------------------------------------------------------------ events
CALL_NAME = {"apply_operation": "apply_operation", "apply_kraus": "apply_kraus", "measure": "measure",
             "measure_POVM": "measure_POVM", "combine": "combine", "reorder": "reorder", "expand": "expand",
             "contract": "contract", "trace_out": "trace_out", "resize": "resize", "resize_fock": "resize_fock"}
NEEDS_JOINT = {"combine", "reorder", "expand", "contract", "trace_out", "resize", "resize_fock",
               "new_composite", "set_contraction", "new_envelope", "new_custom"}


def _sub_args(args: tuple, kwargs: dict) -> List[int]:
    out = []
    for a in list(args) + list(kwargs.values()):
        r = REG.any_id(a)
        if r and r[0] == "s":
            out.append(r[1])
    return out


def _array_args(args: tuple, kwargs: dict) -> List[Any]:
    out = []
    for a in list(args) + list(kwargs.values()):
        if isinstance(a, (list, tuple)):
            out += [x for x in a if hasattr(x, "shape")]
        elif hasattr(a, "shape"):
            out.append(a)
        elif type(a).__name__ == "Operation":
            kw = getattr(a, "kwargs", {}) or {}
            out += [v for v in kw.values() if hasattr(v, "shape")]
            ctx = kw.get("context")
    return out


def _emit(rec: Dict[str, Any]) -> None:
    if _sink is not None:
        _sink.write(json.dumps(rec, separators=(",", ":")) + "\n")


def _wrap(cls: Any, name: str, entry: str) -> None:
    orig = getattr(cls, name)
    if getattr(orig, "_verif_wrapped", False):
        return

    @functools.wraps(orig)
    def wrapper(self: Any, *args: Any, **kwargs: Any) -> Any:
        global _depth, _seq
        if not _enabled or _sink is None or _depth > 0:
            _depth += 1
            try:
                return orig(self, *args, **kwargs)
            finally:
                _depth -= 1
        _depth += 1
        ev: Dict[str, Any] = {"a": CALL_NAME[name], "entry": entry, "res": "ok", "exc": "", "ret": "", "n": -1,
                              "sep": bool(kwargs.get("separate_measurement", False)),
                              "destr": bool(kwargs.get("destructive", True)), "keys": [], "conts": [], "ops": [], "h": 0,
                              "intent": _intent}
        addr = _sub_args(args, kwargs)
        r = REG.any_id(self)
        if entry == "sub":
            addr = [r[1]] + addr if r else addr
        elif entry == "env" and not addr and name in ("measure", "combine", "expand", "contract"):
            addr = [x for x in (REG.id_of(self.fock), REG.id_of(self.polarization)) if x]
        elif entry == "env" and name == "resize_fock":
            addr = [x for x in (REG.id_of(self.fock),) if x]
        ev["addr"] = addr
        if entry == "ce":
            c = _cont_of_handle(self)
            if c is not None:
                ev["conts"] = [REG.cont_id(c)]
        for a in list(args) + list(kwargs.values()):
            ra = REG.any_id(a)
            if ra and ra[0] == "o":
                ev["ops"].append(ra[1])
        if name in ("resize", "resize_fock") and args:
            try:
                ev["n"] = int(args[0])
            except Exception:
                pass
        arrays = _array_args(args, kwargs)
        before = [project.digest(x) for x in arrays]
        # requests for which the specification's rule can be evaluated on floats (model_obs.py)
        mdl_op = mdl_sid = mdl_a = None
        if name == "apply_operation" and len(addr) == 1:
            opobj = next((x for x in args if type(x).__name__ == "Operation"), None)
            tname = getattr(getattr(opobj, "_operation_type", None), "name", "")
            if tname in ("Displace", "Squeeze") and type(getattr(opobj, "_operation_type", None)).__name__ == "FockOperationType":
                mdl_op, mdl_sid = (tname, dict(getattr(opobj, "kwargs", {}) or {})), addr[0]
                mdl_a = model_obs.reduced_state(REG, mdl_sid)
        pre = projection()
        need_joint = ev["a"] in NEEDS_JOINT
        jpre = _joint(REG)
        _draws.clear()
        _keysrc.clear()
        try:
            ret = orig(self, *args, **kwargs)
            if name == "measure" and isinstance(ret, dict):
                ev["keys"] = [(REG.id_of(k) or 0) for k in ret]
                ev["ret"] = ",".join(str(int(v)) for v in ret.values())
            if name == "measure_POVM" and isinstance(ret, tuple) and len(ret) == 2:
                ev["ret"] = str(int(ret[0])) + ";" + ",".join(f"{REG.id_of(k) or 0}={int(v)}" for k, v in ret[1].items())
            if name in ("resize", "resize_fock"):
                ev["ret"] = "true" if ret is True else ("false" if ret is False else str(type(ret).__name__))
            return ret
        except Exception as ex:  # noqa: BLE001
            ev["res"] = "exc"
            ev["exc"] = type(ex).__name__
            raise
        finally:
            _depth -= 1
            post = projection()
            jpost = _joint(REG)
            ev["jc"] = _joint_cmp(jpre, jpost) if (need_joint or ev["res"] == "exc") else "skip"
            ev["mdl"] = dict(model_obs.NONE)
            try:
                if ev["res"] == "ok" and mdl_op is not None:
                    ev["mdl"] = model_obs.cut_obs(mdl_a, model_obs.reduced_state(REG, mdl_sid), mdl_op[0], mdl_op[1])
                elif ev["res"] == "ok" and name == "apply_kraus" and args and isinstance(args[0], (list, tuple)):
                    ev["mdl"] = model_obs.kraus_obs(jpre, jpost, list(addr), list(args[0]))
            except Exception:  # noqa: BLE001   an observation that cannot be made is not a verdict
                ev["mdl"] = dict(model_obs.NONE)
            ev["draws"] = list(_draws)
            ev["keysrc"] = "none" if not _keysrc else ("config" if all(k == "config" for k in _keysrc) else "other")
            after = [project.digest(x) for x in arrays]
            ev["uarr"] = "none" if not arrays else ("same" if before == after else "changed")
            _seq += 1
            _emit({"tid": _tid, "seq": _seq, "ev": ev, "pre": pre, "post": post})

    wrapper._verif_wrapped = True  # type: ignore
    setattr(cls, name, wrapper)


def _wrap_init(cls: Any, kind: str, evname: Optional[str]) -> None:
    orig = cls.__init__
    if getattr(orig, "_verif_wrapped", False):
        return

    @functools.wraps(orig)
    def init(self: Any, *args: Any, **kwargs: Any) -> None:
        global _depth, _seq
        outer = _enabled and _sink is not None and _depth == 0 and evname is not None
        pre = projection() if outer else None
        jpre = _joint(REG) if outer else None
        merged = []
        if outer and kind == "h":
            for a in args:
                ra = REG.any_id(a)
                if ra and ra[0] == "h":
                    c = _cont_of_handle(a)
                    if c is not None:
                        merged.append(REG.cont_id(c))
                if ra and ra[0] == "e":
                    cid = getattr(a, "composite_envelope_id", None)
                    from photon_weave.state.composite_envelope import CompositeEnvelope

                    c = CompositeEnvelope._containers.get(cid) if cid is not None else None
                    if c is not None:
                        merged.append(REG.cont_id(c))
        _depth += 1
        res, exc = "ok", ""
        try:
            orig(self, *args, **kwargs)
        except Exception as ex:  # noqa: BLE001
            res, exc = "exc", type(ex).__name__
            raise
        finally:
            _depth -= 1
            i = REG.add(kind, self)
            if kind == "e":
                for m in (getattr(self, "fock", None), getattr(self, "polarization", None)):
                    if m is not None:
                        REG.add("s", m)
            if outer:
                addr: List[int] = []
                if kind == "e":
                    addr = [x for x in (REG.id_of(getattr(self, "fock", None)), REG.id_of(getattr(self, "polarization", None))) if x]
                elif kind == "s":
                    addr = [i]
                elif kind == "h":
                    for a in args:
                        ra = REG.any_id(a)
                        if ra and ra[0] == "e":
                            addr += [x for x in (REG.id_of(a.fock), REG.id_of(a.polarization)) if x]
                        elif ra and ra[0] == "s":
                            addr.append(ra[1])
                    c = _cont_of_handle(self)
                    if c is not None:
                        merged.append(REG.cont_id(c))
                post = projection()
                # objects that did not exist before the call are added to the pre-state as they are now
                pre_ids = {r["id"] for r in pre["subs"]}
                pre["subs"] += [r for r in post["subs"] if r["id"] not in pre_ids]
                pre_e = {r["id"] for r in pre["envs"]}
                pre["envs"] += [r for r in post["envs"] if r["id"] not in pre_e]
                pre_o = {r["id"] for r in pre["ops"]}
                pre["ops"] += [r for r in post["ops"] if r["id"] not in pre_o]
                ev = {"a": evname, "entry": {"e": "env", "s": "sub", "h": "ce", "o": "op"}[kind], "res": res, "exc": exc,
                      "ret": "", "n": -1, "sep": False, "destr": False, "keys": [], "addr": addr, "conts": sorted(set(merged)),
                      "h": i if kind == "h" else 0, "intent": _intent,
                      "ops": [i] if kind == "o" else [], "jc": _joint_cmp(jpre, _joint(REG)) if kind != "o" and kind != "s" and kind != "e" else "skip",
                      "draws": [], "keysrc": "none", "uarr": "none"}
                _seq += 1
                _emit({"tid": _tid, "seq": _seq, "ev": ev, "pre": pre, "post": post})

    init._verif_wrapped = True  # type: ignore
    cls.__init__ = init


def install(sink: Any, tid: int = 0) -> None:
    """Wrap the public API; events go to the file-like ``sink`` as ndjson."""
    global _sink, _tid
    _sink = sink
    _tid = tid
    import jax

    from photon_weave.operation.operation import Operation
    from photon_weave.photon_weave import Config
    from photon_weave.state.composite_envelope import CompositeEnvelope
    from photon_weave.state.custom_state import CustomState
    from photon_weave.state.envelope import Envelope
    from photon_weave.state.fock import Fock
    from photon_weave.state.polarization import Polarization

    for cls in (Fock, Polarization, CustomState):
        for m in ("apply_operation", "apply_kraus", "measure", "measure_POVM", "expand", "contract", "trace_out"):
            _wrap(cls, m, "sub")
    _wrap(Fock, "resize", "sub")
    for m in ("apply_operation", "apply_kraus", "measure", "measure_POVM", "combine", "reorder", "expand", "contract",
              "trace_out", "resize_fock"):
        _wrap(Envelope, m, "env")
    for m in ("apply_operation", "apply_kraus", "measure", "measure_POVM", "combine", "reorder", "expand", "contract",
              "trace_out", "resize_fock"):
        _wrap(CompositeEnvelope, m, "ce")
    _wrap_init(Fock, "s", "new_sub")
    _wrap_init(Polarization, "s", "new_sub")
    _wrap_init(CustomState, "s", "new_custom")
    _wrap_init(Envelope, "e", "new_envelope")
    _wrap_init(CompositeEnvelope, "h", "new_composite")
    _wrap_init(Operation, "o", "new_operation")

    # configuration: seed / contraction switch are events, random_key is observed
    if not getattr(Config.set_seed, "_verif_wrapped", False):
        oseed, ocontr = Config.set_seed, Config.set_contraction
        okey = Config.random_key.fget

        def set_seed(self: Any, seed: int) -> None:
            global _seq
            pre = projection()
            oseed(self, seed)
            if _enabled and _sink is not None and _depth == 0:
                _seq += 1
                ev = {"a": "set_seed", "entry": "cfg", "res": "ok", "exc": "", "ret": "", "n": int(seed) % 1000000, "sep": False,
                      "destr": False, "keys": [], "addr": [], "conts": [], "ops": [], "h": 0, "intent": _intent, "jc": "same", "draws": [],
                      "keysrc": "none", "uarr": "none"}
                _emit({"tid": _tid, "seq": _seq, "ev": ev, "pre": pre, "post": projection()})

        def set_contraction(self: Any, cs: bool) -> None:
            global _seq
            pre = projection()
            jpre = _joint(REG)
            ocontr(self, cs)
            if _enabled and _sink is not None and _depth == 0:
                _seq += 1
                ev = {"a": "set_contraction", "entry": "cfg", "res": "ok", "exc": "", "ret": "", "n": -1, "sep": False,
                      "destr": False, "keys": [], "addr": [], "conts": [], "ops": [], "h": 0, "intent": _intent, "jc": _joint_cmp(jpre, _joint(REG)),
                      "draws": [], "keysrc": "none", "uarr": "none"}
                _emit({"tid": _tid, "seq": _seq, "ev": ev, "pre": pre, "post": projection()})

        def random_key(self: Any) -> Any:
            global _last_config_key
            k = okey(self)
            _last_config_key = np.asarray(k).tobytes().hex()
            return k

        set_seed._verif_wrapped = True  # type: ignore
        Config.set_seed = set_seed  # type: ignore
        Config.set_contraction = set_contraction  # type: ignore
        Config.random_key = property(random_key)  # type: ignore


def note_draw(key_hex: str) -> None:
    """Called by the sampler interception for every jax.random.choice call."""
    _draws.append(key_hex)
    _keysrc.append("config" if key_hex == _last_config_key else "other")


def set_enabled(flag: bool) -> None:
    global _enabled
    _enabled = flag


def new_trace(tid: int) -> None:
    global _tid, _seq
    _tid = tid
    _seq = 0
    REG.reset()

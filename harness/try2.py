import sys, time, json
from harness import tlcrun, configs
u, fam, num, depth, seed = sys.argv[1], sys.argv[2], int(sys.argv[3]), int(sys.argv[4]), int(sys.argv[5])
cfg = configs.make_cfg(f"try_{u}.cfg", u, depth, True, fam)
t0=time.time()
traces, st = tlcrun.simulate("MC", cfg, num=num, depth=depth, seed=seed, procs=8)
print("generated", len(traces), st)
import hashlib
print(hashlib.md5(json.dumps(traces, sort_keys=True).encode()).hexdigest())
json.dump(traces, open(f"out/try_{u}.json","w"))
from collections import Counter
c=Counter(r["a"] for t in traces for r in t)
print(c)

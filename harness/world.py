"""
A "world": the real photon_weave objects corresponding to one universe of the specification,
plus the dispatcher that turns a logged specification action into the public API call it names.
"""

from __future__ import annotations

import math
import os
from typing import Any, Callable, Dict, List, Optional, Tuple

import numpy as np

os.environ.setdefault("PHOTON_WEAVE_VERIF", "1")

import jax  # noqa: E402
import jax.numpy as jnp  # noqa: E402

import photon_weave._verif as _verif  # noqa: E402
from photon_weave.operation import (  # noqa: E402
    CompositeOperationType,
    CustomStateOperationType,
    FockOperationType,
    Operation,
    PolarizationOperationType,
)
from photon_weave.photon_weave import Config  # noqa: E402
from photon_weave.state.composite_envelope import CompositeEnvelope  # noqa: E402
from photon_weave.state.custom_state import CustomState  # noqa: E402
from photon_weave.state.envelope import Envelope  # noqa: E402
from photon_weave.state.expansion_levels import ExpansionLevel  # noqa: E402
from photon_weave.state.fock import Fock  # noqa: E402
from photon_weave.state.polarization import Polarization, PolarizationLabel  # noqa: E402

from . import speclib  # noqa: E402

POL_LABELS = {0: PolarizationLabel.H, 1: PolarizationLabel.V, 2: PolarizationLabel.R, 3: PolarizationLabel.L}


class World:
    def __init__(self, dim: List[int], kind: List[str], envidx: List[int], levels: List[int]):
        self.n = len(dim)
        self.order = list(range(1, self.n + 1))       # subsystem ids = tensor positions 1..n
        self.model_dim = {i: dim[i - 1] for i in self.order}
        self.kind = {i: kind[i - 1] for i in self.order}
        self.envidx = {i: envidx[i - 1] for i in self.order}
        self.subs: Dict[int, Any] = {}
        self.envs: Dict[int, Any] = {}
        self.handles: Dict[int, List[Any]] = {}        # composite id -> handles (creation order)
        self.comp_of_member: Dict[int, int] = {}       # member id -> composite id
        self.all_handles: List[Any] = []
        self.ncomp = 0
        self.step_no = 0
        # C15: with VERIF_REUSE_OPS=1 one Operation object per (gate, operand kinds) is built once and
        # applied again and again (to targets of different sizes, in different containers)
        self.reuse_ops = os.environ.get("VERIF_REUSE_OPS") == "1"
        self.op_cache: Dict[Any, Any] = {}
        nenv = max(envidx) if envidx else 0
        for e in range(1, nenv + 1):
            f = [i for i in self.order if envidx[i - 1] == e and kind[i - 1] == "F"][0]
            p = [i for i in self.order if envidx[i - 1] == e and kind[i - 1] == "P"][0]
            env = Envelope(polarization=Polarization(POL_LABELS[levels[p - 1]]))
            if levels[f - 1] != 0:
                env.fock.state = int(levels[f - 1])    # the documented way to prepare |n>
            self.envs[e] = env
            self.subs[f] = env.fock
            self.subs[p] = env.polarization
        for i in self.order:
            if kind[i - 1] == "C":
                c = CustomState(dim[i - 1])
                if levels[i - 1] != 0:
                    c.state = int(levels[i - 1])
                self.subs[i] = c
        self._ids = {id(o): i for i, o in self.subs.items()}

    # ------------------------------------------------------------------ lookups
    def id_of(self, obj: Any) -> Optional[int]:
        return self._ids.get(id(obj))

    def member(self, i: int) -> int:
        nenv = len(self.envs)
        return self.envidx[i] if self.envidx[i] > 0 else nenv + i

    def member_obj(self, m: int) -> Any:
        nenv = len(self.envs)
        return self.envs[m] if m <= nenv else self.subs[m - nenv]

    def env_of(self, i: int) -> Any:
        return self.envs[self.envidx[i]]

    def is_destroyed(self, i: int) -> bool:
        return bool(getattr(self.subs[i], "measured", False))

    def handle_for(self, i: int) -> Any:
        hs = self.handles[self.comp_of_member[self.member(i)]]
        return hs[self.step_no % len(hs)]

    def containers(self) -> List[Any]:
        out, seen = [], set()
        for h in self.all_handles:
            c = CompositeEnvelope._containers.get(h.uid)
            if c is not None and id(c) not in seen:
                seen.add(id(c))
                out.append(c)
        return out

    # ------------------------------------------------------------------ actual layout
    def home(self, i: int) -> str:
        s = self.subs[i]
        if self.is_destroyed(i):
            return "gone"
        idx = getattr(s, "index", None)
        if idx is None:
            return "own"
        if isinstance(idx, int):
            return "env"
        return "ps"

    def level(self, i: int) -> str:
        from .project import level_tag

        return level_tag(getattr(self.subs[i], "expansion_level", None))

    def cell(self, targets: List[int]) -> str:
        return ",".join(f"{self.kind[i]}:{self.home(i)}:{self.level(i)}" for i in targets)

    # ------------------------------------------------------------------ dispatcher
    def call(self, r: Dict[str, Any]) -> Any:
        """Perform the public call named by the specification record r; return its result."""
        a, en = r["a"], r.get("en")
        t = r.get("t", [])
        objs = [self.subs[i] for i in t]
        if a == "op1":
            op = self._op(("1", r["g"], self.kind[t[0]]), lambda: speclib.make_operation(r["g"], self.kind[t[0]]))
            return self._apply_op(en, op, t)
        if a == "opn":
            op = self._op(("n", r["g"]), lambda: speclib.make_operation(r["g"], "X"))
            return self.handle_for(t[0]).apply_operation(op, *objs)
        if a == "opk":
            kinds = [self.kind[i] for i in t]
            op = self._op(("k", tuple(r["g"]), tuple(kinds)), lambda: speclib.make_kron_operation(list(r["g"]), kinds))
            return self.handle_for(t[0]).apply_operation(op, *objs)
        if a == "kraus":
            ops = [jnp.array(k) for k in speclib.kraus_set(r["g"])]
            return self._kraus(en, ops, t)
        if a == "povm":
            ops = [jnp.array(k) for k in speclib.povm_set(r["g"])]
            return self._povm(en, ops, t, r["destr"], partial=not r.get("pm", False))
        if a == "measure":
            return self._measure(en, t, r["sep"], r["destr"])
        if a == "envcombine":
            return self.env_of(t[0]).combine()
        if a == "envreorder":
            return self.env_of(t[0]).reorder(*objs)
        if a == "expand":
            if en == "sub":
                return objs[0].expand()
            if en == "env":
                return self.env_of(t[0]).expand()
            return self.handle_for(t[0]).expand(objs[0])
        if a == "contract":
            final = ExpansionLevel.Label if r["final"] == "L" else ExpansionLevel.Vector
            if en == "sub":
                return objs[0].contract(final=final)
            return self.env_of(t[0]).contract(final=final)
        if a == "cecombine":
            return self.handle_for(t[0]).combine(*objs)
        if a == "cereorder":
            return self.handle_for(t[0]).reorder(*objs)
        if a == "traceout":
            if en == "sub":
                return objs[0].trace_out()
            if en == "env":
                return self.env_of(t[0]).trace_out(*objs)
            return self.handle_for(t[0]).trace_out(*objs)
        if a == "setcontraction":
            return Config().set_contraction(bool(r["b"]))
        if a == "newcomposite":
            args = [self.member_obj(m) for m in r["f"]]
            if r.get("dup"):
                # the same composite named several times: all of its handles, and one member envelope
                for g in r["gc"]:
                    args += list(self.handles[g])
                    envs = [self.envs[m] for m, cm in self.comp_of_member.items()
                            if cm == g and m in self.envs and not self.envs[m].measured]
                    args += envs[:1]
            else:
                args += [self.handles[g][self.step_no % len(self.handles[g])] for g in r["gc"]]
            h = CompositeEnvelope(*args)
            self.ncomp += 1
            c = self.ncomp
            hs = [h]
            for g in r["gc"]:
                hs = self.handles.pop(g) + hs
                for m, cm in list(self.comp_of_member.items()):
                    if cm == g:
                        self.comp_of_member[m] = c
            self.handles[c] = hs
            for m in r["f"]:
                self.comp_of_member[m] = c
            self.all_handles.append(h)
            return None
        if a == "resize":
            n = int(r["n"])
            if en == "sub":
                return objs[0].resize(n)
            if en == "env":
                return self.env_of(t[0]).resize_fock(n)
            return self.handle_for(t[0]).resize_fock(n, objs[0])
        if a == "invalid":
            return self._invalid(r["g"], en, t)
        raise KeyError(a)

    def prebuild(self, r: Dict[str, Any]) -> None:
        a, t = r["a"], r.get("t", [])
        if a == "op1":
            self._op(("1", r["g"], self.kind[t[0]]), lambda: speclib.make_operation(r["g"], self.kind[t[0]]))
        elif a == "opn":
            self._op(("n", r["g"]), lambda: speclib.make_operation(r["g"], "X"))
        elif a == "opk":
            kinds = [self.kind[i] for i in t]
            self._op(("k", tuple(r["g"]), tuple(kinds)), lambda: speclib.make_kron_operation(list(r["g"]), kinds))

    def _op(self, key: Any, factory: Callable[[], Any]) -> Any:
        if not self.reuse_ops:
            return factory()
        if key not in self.op_cache:
            self.op_cache[key] = factory()
        return self.op_cache[key]

    def _apply_op(self, en: str, op: Any, t: List[int]) -> Any:
        o = self.subs[t[0]]
        if en == "sub":
            return o.apply_operation(op)
        if en == "env":
            return self.env_of(t[0]).apply_operation(op, o)
        return self.handle_for(t[0]).apply_operation(op, o)

    def _kraus(self, en: str, ops: List[Any], t: List[int]) -> Any:
        objs = [self.subs[i] for i in t]
        if en == "sub":
            return objs[0].apply_kraus(ops)
        if en == "env":
            return self.env_of(t[0]).apply_kraus(ops, *objs)
        return self.handle_for(t[0]).apply_kraus(ops, *objs)

    def _povm(self, en: str, ops: List[Any], t: List[int], destr: bool, partial: bool = True) -> Any:
        objs = [self.subs[i] for i in t]
        if en == "sub":
            return objs[0].measure_POVM(ops, destructive=destr, partial=partial)
        if en == "env":
            return self.env_of(t[0]).measure_POVM(ops, *objs, destructive=destr)
        return self.handle_for(t[0]).measure_POVM(ops, *objs, destructive=destr)

    def _measure(self, en: str, t: List[int], sep: bool, destr: bool) -> Any:
        objs = [self.subs[i] for i in t]
        if en == "sub":
            return objs[0].measure(separate_measurement=sep, destructive=destr)
        if en == "envall":
            return self.env_of(t[0]).measure(destructive=destr)
        if en == "env":
            return self.env_of(t[0]).measure(*objs, separate_measurement=sep, destructive=destr)
        return self.handle_for(t[0]).measure(*objs, separate_measurement=sep, destructive=destr)

    def _invalid(self, kind: str, en: str, t: List[int]) -> Any:
        i = t[0]
        o = self.subs[i]
        d = self.model_dim[i]
        if kind == "kraus_incomplete":
            return self._kraus(en, [jnp.array(np.diag([1.0, 0.0]).astype(complex))], t)
        if kind == "kraus_wrongsize":
            return self._kraus(en, [jnp.eye(d + 1, dtype=complex)], t)
        if kind == "povm_wrongsize":
            return self._povm(en, [jnp.eye(d + 1, dtype=complex)], t, False)
        if kind in ("kraus_rect", "povm_rect"):
            # rectangular operators whose K^dagger K still sum to the identity
            eye = np.eye(d, dtype=complex)
            ops = [jnp.array(eye[: d - 1, :]), jnp.array(eye[d - 1:, :])]
            return self._kraus(en, ops, t) if kind == "kraus_rect" else self._povm(en, ops, t, False)
        if kind.startswith("outside_"):
            # a single subsystem named at a container it does not belong to: the composite / the envelope of t[1]
            cont = self.handle_for(t[1]) if en == "ce" else self.env_of(t[1])
            if kind == "outside_op":
                g = {"P": "X", "F": "FId", "C": "X"}[self.kind[i]]
                return cont.apply_operation(speclib.make_operation(g, self.kind[i]), o)
            if kind == "outside_kraus":
                return cont.apply_kraus([jnp.eye(d, dtype=complex)], o)
            if kind == "outside_measure":
                return cont.measure(o, separate_measurement=True, destructive=False)
            return cont.measure_POVM([jnp.eye(d, dtype=complex)], o, destructive=False)
        if kind == "custom_wrongsize":
            m = jnp.eye(d + 1, dtype=complex)
            ty = PolarizationOperationType.Custom if self.kind[i] == "P" else CustomStateOperationType.Custom
            return self._apply_op(en, Operation(ty, operator=m), t)
        if kind == "op_wrongkind":
            op = Operation(PolarizationOperationType.X) if self.kind[i] != "P" else Operation(FockOperationType.Identity)
            return self._apply_op(en, op, t)
        if kind == "op_outside":
            op = Operation(CompositeOperationType.CXPolarization)
            return self.handle_for(i).apply_operation(op, *[self.subs[j] for j in t])
        if kind == "ann_vacuum":
            return self._apply_op(en, Operation(FockOperationType.Annihilation), t)
        if kind == "use_destroyed_op":
            g = {"P": "X", "F": "FId", "C": "X"}[self.kind[i]]
            return self._apply_op(en, speclib.make_operation(g, self.kind[i]), t)
        if kind == "use_destroyed_measure":
            return self._measure(en, t, False, True)
        if kind == "measure_with_destroyed":
            return self.handle_for(t[0]).measure(*[self.subs[j] for j in t], separate_measurement=True, destructive=True)
        if kind == "use_destroyed_kraus":
            return self._kraus(en, [jnp.eye(d, dtype=complex)], t)
        if kind == "use_destroyed_povm":
            return self._povm(en, [jnp.eye(d, dtype=complex)], t, False)
        raise KeyError(kind)


# ---------------------------------------------------------------------- sampler interception
class Sampler:
    """Replaces jax.random.choice while a public call runs: records every draw (subject
    announced by the repository hook, key, probability vector) and returns the outcome chosen
    by ``oracle(kind, subjects, p)`` (or the most likely one when the oracle has no opinion)."""

    def __init__(self) -> None:
        self.real = jax.random.choice
        self.draws: List[Dict[str, Any]] = []
        self.pending: Optional[Tuple[str, tuple]] = None
        self.oracle: Optional[Callable[[str, tuple, np.ndarray], Optional[int]]] = None
        self.force = True

    def install(self) -> None:
        _verif.set_sink(self._announce)
        jax.random.choice = self._choice  # type: ignore

    def uninstall(self) -> None:
        jax.random.choice = self.real  # type: ignore
        _verif.set_sink(None)

    def _note(self, rec: Dict[str, Any]) -> None:
        try:
            from . import tracer

            tracer.note_draw(rec["key"])
        except Exception:
            pass

    def _announce(self, kind: str, subjects: tuple) -> None:
        self.pending = (kind, subjects)

    def _choice(self, key: Any, a: Any, shape: Any = (), replace: bool = True, p: Any = None, axis: int = 0) -> Any:
        pend, self.pending = self.pending, None
        pv = None if p is None else np.asarray(p, dtype=float).reshape(-1)
        rec = {"announced": pend is not None, "kind": pend[0] if pend else None,
               "subjects": pend[1] if pend else (), "p": pv,
               "key": np.asarray(key).tobytes().hex(), "n": None if pv is None else len(pv)}
        out = None
        if self.force and self.oracle is not None and pend is not None and pv is not None:
            out = self.oracle(pend[0], pend[1], pv)
        if out is None:
            if self.force and pv is not None and np.all(np.isfinite(pv)) and pv.sum() > 0:
                out = int(np.argmax(pv))
            else:
                res = self.real(key, a, shape=shape, replace=replace, p=p, axis=axis)
                rec["outcome"] = int(res)
                self.draws.append(rec)
                self._note(rec)
                return res
        rec["outcome"] = int(out)
        self.draws.append(rec)
        self._note(rec)
        arr = np.asarray(a)
        if arr.ndim == 0:
            return jnp.array(int(out))
        return jnp.asarray(a)[int(out)]

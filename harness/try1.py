import sys, time, json
t0=time.time()
from harness import tlcrun
traces, st = tlcrun.simulate("MC_U1", "MC_U1_sim.cfg", num=int(sys.argv[1]), depth=8, seed=int(sys.argv[2]), procs=8)
print("generated", len(traces), st, time.time()-t0)
from harness import world, replay
print("import", time.time()-t0)
S = world.Sampler(); S.install()
R = replay.Replayer(world, S)
from collections import Counter
cnt=Counter(); ok=0; steps=0
for tr in traces:
    r = R.run(tr)
    steps += r["nsteps"]
    if r["viol"]:
        v=r["viol"][0]
        key=(tuple(v["props"]), v["kind"], v["a"], v["en"], str(v["g"]), v["cell"], v["detail"][:90])
        if key not in cnt:
            import os, hashlib
            os.makedirs("replays/round1", exist_ok=True)
            nm="replays/round1/%s_%s_%s_%s.json"%(v["props"][0], v["kind"], v["a"], hashlib.md5(repr(key).encode()).hexdigest()[:6])
            json.dump({"violation": v, "behaviour": tr[:v["step"]+1]}, open(nm,"w"))
        cnt[key]+=1
    else: ok+=1
print("ok", ok, "of", len(traces), "steps", steps, time.time()-t0)
for k,v in cnt.most_common(60): print(v, k)

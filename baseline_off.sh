#!/bin/bash
# The repository's own test-suite with the verification guard OFF; compared with the pinned baseline.
unset PHOTON_WEAVE_VERIF
mkdir -p /verif/out
cd /repo && /venv/bin/python -m pytest -ra -q -p no:cacheprovider --timeout=900 --continue-on-collection-errors --junitxml=/verif/out/baseline_off.xml
cd /verif && python3 harness/baseline_cmp.py /verif/out/baseline_off.xml

-------------------------------- MODULE Prng --------------------------------
(***************************************************************************)
(* The random-number discipline of photon_weave (C14).                     *)
(*                                                                         *)
(* The library keeps one process-wide key; set_seed(s) replaces it by      *)
(* PRNGKey(s); every read of Config.random_key splits it and hands out one *)
(* half.  Abstractly the key stream is the pair (seed, number of keys      *)
(* handed out since the last set_seed).                                    *)
(*                                                                         *)
(* Two runs are modelled side by side ("product construction"): each first *)
(* does arbitrary things (its own prefix of seeds and draws), then both    *)
(* set the same seed and execute the same program of draws.  TLC checks    *)
(*   Fresh         no key is handed out twice between two set_seed calls   *)
(*   Reproducible  after the common set_seed both runs observe the same    *)
(*                 sequence of (key, distribution) pairs - i.e. outcomes   *)
(*                 are a function of (seed, program) only                  *)
(***************************************************************************)
EXTENDS Integers, Sequences, FiniteSets

CONSTANTS Seeds, Dists, MaxPrefix, MaxProgram
Runs == {1, 2}

VARIABLES seed,   \* [Runs -> Seeds]
          cnt,    \* [Runs -> Nat]   keys handed out since the last set_seed
          used,   \* [Runs -> SUBSET keys]  keys handed out since the last set_seed
          obs,    \* [Runs -> Seq(<<key, dist>>)]  what the run observed since the common set_seed
          phase,  \* "prefix" | "program"
          steps   \* [Runs -> Nat] prefix steps taken / program steps taken
pv == <<seed, cnt, used, obs, phase, steps>>

Key(r) == <<seed[r], cnt[r]>>
\* outcome of a draw: an uninterpreted injective function of (key, distribution)
Outcome(k, d) == <<k, d>>

Init == /\ seed \in [Runs -> Seeds]
        /\ cnt = [r \in Runs |-> 0]
        /\ used = [r \in Runs |-> {}]
        /\ obs = [r \in Runs |-> <<>>]
        /\ phase = "prefix"
        /\ steps = [r \in Runs |-> 0]

\* prefix: each run on its own
PrefixSeed(r, s) == /\ phase = "prefix" /\ steps[r] < MaxPrefix
                    /\ seed' = [seed EXCEPT ![r] = s] /\ cnt' = [cnt EXCEPT ![r] = 0]
                    /\ used' = [used EXCEPT ![r] = {}] /\ steps' = [steps EXCEPT ![r] = @ + 1]
                    /\ UNCHANGED <<obs, phase>>
PrefixDraw(r, d) == /\ phase = "prefix" /\ steps[r] < MaxPrefix
                    /\ used' = [used EXCEPT ![r] = @ \cup {Key(r)}]
                    /\ cnt' = [cnt EXCEPT ![r] = @ + 1] /\ steps' = [steps EXCEPT ![r] = @ + 1]
                    /\ UNCHANGED <<seed, obs, phase>>
\* both runs set the same seed and start the common program
CommonSeed(s) == /\ phase = "prefix"
                 /\ seed' = [r \in Runs |-> s] /\ cnt' = [r \in Runs |-> 0] /\ used' = [r \in Runs |-> {}]
                 /\ obs' = [r \in Runs |-> <<>>] /\ phase' = "program" /\ steps' = [r \in Runs |-> 0]
\* the program: the same draw in both runs
CommonDraw(d) == /\ phase = "program" /\ steps[1] < MaxProgram
                 /\ obs' = [r \in Runs |-> Append(obs[r], Outcome(Key(r), d))]
                 /\ used' = [r \in Runs |-> used[r] \cup {Key(r)}]
                 /\ cnt' = [r \in Runs |-> cnt[r] + 1] /\ steps' = [r \in Runs |-> steps[r] + 1]
                 /\ UNCHANGED <<seed, phase>>
Next == \/ \E r \in Runs, s \in Seeds : PrefixSeed(r, s)
        \/ \E r \in Runs, d \in Dists : PrefixDraw(r, d)
        \/ \E s \in Seeds : CommonSeed(s)
        \/ \E d \in Dists : CommonDraw(d)
Spec == Init /\ [][Next]_pv

Fresh == \A r \in Runs : Key(r) \notin used[r]
Reproducible == phase = "program" => obs[1] = obs[2]
\* successive draws never see the same key: observations within one run are pairwise distinct keys
Independent == \A r \in Runs : \A i, j \in 1..Len(obs[r]) : i # j => obs[r][i][1] # obs[r][j][1]
=============================================================================

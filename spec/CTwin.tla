-------------------------------- MODULE CTwin --------------------------------
(***************************************************************************)
(* C08, contraction twins: each line is one seeded program executed in     *)
(* lockstep with the automatic contraction switch on and off; per step the *)
(* harness observed whether the two joint density operators agree.         *)
(* ContractionNeutral: they agree after every step (the switch is          *)
(* physics-neutral); a step at which the two worlds were asked different   *)
(* things ends the comparison without a verdict.                           *)
(***************************************************************************)
EXTENDS Integers, Sequences, Json, IOUtils, TLC
Pairs == ndJsonDeserialize(IOEnv.TRACE_FILE)
VARIABLE l
Judge(r) == \A i \in 1..Len(r.steps) :
              (r.steps[i].same_request /\ ~r.steps[i].eq) => PrintT(<<"CTWIN", r.pair, r.steps[i].k, r.steps[i].kind>>)
Init == l = 1
Next == l <= Len(Pairs) /\ Judge(Pairs[l]) /\ l' = l + 1
PostOK == TLCGet("stats").diameter - 1 = Len(Pairs) /\ PrintT(<<"CONSUMED", Len(Pairs)>>)
=============================================================================

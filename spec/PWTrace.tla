------------------------------ MODULE PWTrace ------------------------------
(***************************************************************************)
(* Trace validation (conformance direction B).                             *)
(*                                                                         *)
(* Reads an ndjson file of events recorded from the real library           *)
(* (harness/tracer.py): one line per outermost public call with the        *)
(* projected state before and after it.  Every line is judged against      *)
(* every clause of PWContract plus the history-dependent clauses below     *)
(* (key freshness, operation-object stability).  The verdict is total:     *)
(* every violated clause of every line is printed as                       *)
(*     <<"CLAUSE", tid, seq, clause name>>                                 *)
(* and the run ends only when all lines have been consumed (POSTCONDITION).*)
(* Each step is judged against the RECORDED pre-state, so one bad step     *)
(* does not hide later ones.                                               *)
(***************************************************************************)
EXTENDS PWContract, Json, IOUtils, TLC

Trace == ndJsonDeserialize(IOEnv.TRACE_FILE)

VARIABLES l,      \* next line
          keys,   \* PRNG key digests consumed since the last set_seed of the current process
          tid     \* trace (process) the keys belong to
tvars == <<l, keys, tid>>

(* C14: every random decision uses a key that has not been used since the last set_seed *)
KeyFresh(ev, used) ==
  /\ \A i \in 1..Len(ev.draws) : ev.draws[i] \notin used
  /\ \A i, j \in 1..Len(ev.draws) : i # j => ev.draws[i] # ev.draws[j]
  \* the key handed to the sampler is the one just taken from the configuration
  /\ ev.keysrc \in {"config", "none"}

(* C15: operation objects not named by the call keep type, parameters, declared operand types *)
OpStable(pre, post, ev) ==
  \A i \in 1..Len(pre.ops) :
     (pre.ops[i].id \notin Rng(ev.ops)) =>
        (HasId(post.ops, pre.ops[i].id) /\ ById(post.ops, pre.ops[i].id) = pre.ops[i])
(* the parameters and caller-supplied arrays of an operation never change, even when it is applied *)
OpParamsStable(pre, post) ==
  \A i \in 1..Len(pre.ops) :
     HasId(post.ops, pre.ops[i].id) =>
        /\ ById(post.ops, pre.ops[i].id).ty = pre.ops[i].ty
        /\ ById(post.ops, pre.ops[i].id).pd = pre.ops[i].pd
UserArraysUntouched(ev) == ev.uarr \in {"same", "none"}

Line == Trace[l]
Failing(r, used) ==
  Verdict(r.pre, r.post, r.ev)
  \cup (IF KeyFresh(r.ev, used) THEN {} ELSE {"KeyFresh"})
  \cup (IF OpStable(r.pre, r.post, r.ev) THEN {} ELSE {"OpStable"})
  \cup (IF OpParamsStable(r.pre, r.post) THEN {} ELSE {"OpParamsStable"})
  \cup (IF UserArraysUntouched(r.ev) THEN {} ELSE {"UserArraysUntouched"})

Init == l = 1 /\ keys = {} /\ tid = -1
Next ==
  /\ l <= Len(Trace)
  /\ LET r    == Line
         used == IF r.tid # tid THEN {} ELSE keys
         bad  == Failing(r, used)
     IN  /\ \A c \in bad : PrintT(<<"CLAUSE", r.tid, r.seq, c>>)
         /\ keys' = IF r.ev.a = "set_seed" THEN {} ELSE used \cup Rng(r.ev.draws)
         /\ tid' = r.tid
  /\ l' = l + 1
Spec == Init /\ [][Next]_tvars
\* machinery check: TLC's diameter counts one state per consumed line plus the initial state
PostOK == /\ TLCGet("stats").diameter - 1 = Len(Trace)
          /\ PrintT(<<"CONSUMED", Len(Trace)>>)
=============================================================================

------------------------------- MODULE Ring -------------------------------
(***************************************************************************)
(* Exact arithmetic in Z[i, sqrt 2] = Z[zeta_8 scaled].                    *)
(* An element <<a,b,c,d>> denotes (a + b*sqrt2) + i*(c + d*sqrt2).         *)
(* A real element of Z[sqrt 2] ("weight") is a pair <<p,q>> = p + q*sqrt2. *)
(* States in the photon_weave model are projective: amplitudes are never   *)
(* normalised, so no division other than by 2 and sqrt 2 (gcd reduction)   *)
(* is needed and nothing is ever rounded.                                  *)
(***************************************************************************)
EXTENDS Integers

R0  == <<0,0,0,0>>
R1  == <<1,0,0,0>>
RM1 == <<-1,0,0,0>>
RI  == <<0,0,1,0>>
RMI == <<0,0,-1,0>>
RS2 == <<0,1,0,0>>          \* sqrt 2
R2  == <<2,0,0,0>>

RInt(n)   == <<n,0,0,0>>
RAdd(x,y) == <<x[1]+y[1], x[2]+y[2], x[3]+y[3], x[4]+y[4]>>
RNeg(x)   == <<-x[1], -x[2], -x[3], -x[4]>>
RSub(x,y) == RAdd(x, RNeg(y))
RConj(x)  == <<x[1], x[2], -x[3], -x[4]>>
RMul(x,y) ==
  <<x[1]*y[1] + 2*x[2]*y[2] - x[3]*y[3] - 2*x[4]*y[4],
    x[1]*y[2] + x[2]*y[1]   - x[3]*y[4] - x[4]*y[3],
    x[1]*y[3] + 2*x[2]*y[4] + x[3]*y[1] + 2*x[4]*y[2],
    x[1]*y[4] + x[2]*y[3]   + x[3]*y[2] + x[4]*y[1]>>
RIsZero(x) == x = R0

\* multiplication by i and by sqrt 2 (cheap special cases)
RTimesI(x)  == <<-x[3], -x[4], x[1], x[2]>>
RTimesS2(x) == <<2*x[2], x[1], 2*x[4], x[3]>>

\* |x|^2 as a weight p + q*sqrt2 (always >= 0)
RNorm2(x) == <<x[1]*x[1] + 2*x[2]*x[2] + x[3]*x[3] + 2*x[4]*x[4],
               2*x[1]*x[2] + 2*x[3]*x[4]>>

W0 == <<0,0>>
WAdd(u,v)  == <<u[1]+v[1], u[2]+v[2]>>
WIsZero(u) == u = W0
\* sign of p + q*sqrt2 without reals: compare p^2 with 2 q^2
WPos(u) ==
  LET p == u[1]  q == u[2] IN
  IF p >= 0 /\ q >= 0 THEN ~(p = 0 /\ q = 0)
  ELSE IF p <= 0 /\ q <= 0 THEN FALSE
  ELSE IF p > 0 THEN p*p > 2*q*q      \* q < 0
  ELSE 2*q*q > p*p                    \* p < 0, q > 0
WNonNeg(u) == WIsZero(u) \/ WPos(u)
WMulInt(u, n) == <<u[1]*n, u[2]*n>>
\* u <= v
WLeq(u,v) == WNonNeg(<<v[1]-u[1], v[2]-u[2]>>)

\* divisibility used for gcd reduction of whole states
Even(n) == n % 2 = 0
RDivBy2(x)   == Even(x[1]) /\ Even(x[2]) /\ Even(x[3]) /\ Even(x[4])
RHalf(x)     == <<x[1] \div 2, x[2] \div 2, x[3] \div 2, x[4] \div 2>>
\* (a + b s)/s = b + (a/2) s   requires a even
RDivByS2(x)  == Even(x[1]) /\ Even(x[3])
ROverS2(x)   == <<x[2], x[1] \div 2, x[4], x[3] \div 2>>

\* sqrt2 * cos(k*pi/4), sqrt2 * sin(k*pi/4), sqrt2 * exp(i*k*pi/4), k any integer
C8w(k) == LET m == k % 8 IN
          CASE m = 0 -> <<0,1>> [] m = 1 -> <<1,0>> [] m = 2 -> <<0,0>> [] m = 3 -> <<-1,0>>
            [] m = 4 -> <<0,-1>> [] m = 5 -> <<-1,0>> [] m = 6 -> <<0,0>> [] m = 7 -> <<1,0>>
S8w(k) == C8w(k - 2)
C8(k) == <<C8w(k)[1], C8w(k)[2], 0, 0>>
S8(k) == <<S8w(k)[1], S8w(k)[2], 0, 0>>
E8(k) == <<C8w(k)[1], C8w(k)[2], S8w(k)[1], S8w(k)[2]>>
\* i^k
IPow(k) == LET m == k % 4 IN CASE m = 0 -> R1 [] m = 1 -> RI [] m = 2 -> RM1 [] m = 3 -> RMI
=============================================================================

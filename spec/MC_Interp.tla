----------------------------- MODULE MC_Interp -----------------------------
(* Enumerates every expression tree of Interp!Cases, checks the evaluator identities and exports
   (expression, exact value) pairs for the conformance harness. *)
EXTENDS Interp, Json, TLC
MCDim == <<2>>
SX == INSTANCE SequencesExt
Rng(s) == {s[i] : i \in 1..Len(s)}
ExportAll ==
  LET cs == SX!SetToSeq(Cases)
      ex == [i \in 1..Len(cs) |-> [e |-> cs[i], v |-> Eval(cs[i])]]
  IN  /\ \A r \in Rng(ex) : ~IsBad(r.v)
      /\ JsonSerialize("interp_cases.json",
             [cases |-> ex, leaves |-> [n \in LeafNames |-> Val(n)], unknown |-> SX!SetToSeq(UnknownHeads)])
      /\ PrintT(<<"CASES", Len(cs), Cardinality(Depth1), Cardinality(Depth2)>>)
ASSUME EvaluatorIdentities
ASSUME ExportAll
VARIABLE x
Init == x = 0
Next == UNCHANGED x
=============================================================================

----------------------------- MODULE MC_Interp -----------------------------
(* Enumerates every expression tree of Interp!Cases, checks the evaluator identities and exports
   (expression, exact value) pairs for the conformance harness. *)
EXTENDS Interp, Json, TLC
MCDim == <<2>>
SX == INSTANCE SequencesExt
Rng(s) == {s[i] : i \in 1..Len(s)}
\* malformed expressions: an unknown command with 1, 2 or 3 operands, at the top or below a well-formed parent
BadTop == {Node(h, as) : h \in UnknownHeads, as \in {<<Leaf("A")>>, <<Leaf("A"), Leaf("B")>>, <<Leaf("A"), Leaf("B"), Leaf("N")>>}}
BadCases == BadTop \cup {Node("add", <<Leaf("A"), b>>) : b \in BadTop} \cup {Node("expm", <<b>>) : b \in BadTop}
ASSUME \A b \in BadCases : IsBad(Eval(b))
ExportAll ==
  LET cs == SX!SetToSeq(Cases)
      ex == [i \in 1..Len(cs) |-> [e |-> cs[i], v |-> Eval(cs[i])]]
  IN  /\ \A r \in Rng(ex) : ~IsBad(r.v)
      /\ JsonSerialize("interp_cases.json",
             [cases |-> ex, leaves |-> [n \in LeafNames |-> Val(n)], unknown |-> SX!SetToSeq(UnknownHeads),
              badcases |-> SX!SetToSeq(BadCases)])
      /\ PrintT(<<"CASES", Len(cs), Cardinality(Depth1), Cardinality(Depth2)>>)
ASSUME EvaluatorIdentities
ASSUME ExportAll
VARIABLE x
Init == x = 0
Next == UNCHANGED x
=============================================================================

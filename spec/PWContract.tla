----------------------------- MODULE PWContract -----------------------------
(***************************************************************************)
(* The structural contract of photon_weave: exactly the relational clauses *)
(* the properties state about the object graph, as predicates over the     *)
(* PROJECTION of an implementation state (harness/tracer.py) before and    *)
(* after one public call, and the event describing that call.              *)
(*                                                                         *)
(* A projection P is a record                                              *)
(*   subs  : sequence of [id, k (F|P|C), env, ix (<<>>|<<i>>|<<i,j>>),     *)
(*           lv (L|V|M|-), dim, ms (measured), rp (none|int|enum|vec|mat|  *)
(*           other), n (label value / leading shape), fl (<<finite, unit,  *)
(*           hermitian, psd>>), dg (byte digest), cc (container id / 0)]   *)
(*   envs  : sequence of [id, f, p, rp, n, lv, ms, cc, dg, fl]             *)
(*   conts : sequence of [id, hs, envs, objs, ps], ps a sequence of        *)
(*           [pid, lv, mem, rp, n, dg, fl]                                 *)
(*   hnd   : sequence of [id, cont, reg, inst]                             *)
(*   cfg   : [contr]                                                       *)
(* Numbers in P are observations; every judgement is made here.            *)
(*                                                                         *)
(* The clauses are deliberately permissive: they never fix the order       *)
(* inside a block, the level after an operation or a Fock cutoff - only    *)
(* what C05, C07, C10, C13, C17, C20 say.                                  *)
(***************************************************************************)
EXTENDS Integers, Sequences, FiniteSets

Rng(s) == {s[i] : i \in 1..Len(s)}
Ids(seq) == {seq[i].id : i \in 1..Len(seq)}
ById(seq, x) == seq[CHOOSE i \in 1..Len(seq) : seq[i].id = x]
HasId(seq, x) == \E i \in 1..Len(seq) : seq[i].id = x
RECURSIVE ProdSeq(_, _)
ProdSeq(s, i) == IF i > Len(s) THEN 1 ELSE s[i] * ProdSeq(s, i+1)

Sub(P, s) == ById(P.subs, s)
Live(P) == {s \in Ids(P.subs) : ~Sub(P, s).ms}
AllPS(P) == UNION {{<<P.conts[c].id, k>> : k \in 1..Len(P.conts[c].ps)} : c \in 1..Len(P.conts)}
PSRec(P, h) == ById(P.conts, h[1]).ps[h[2]]

(* ---------------------------- storage blocks ----------------------------- *)
\* the places that claim to hold subsystem s
Homes(P, s) ==
  (IF Sub(P, s).rp # "none" THEN {<<"own", s>>} ELSE {})
  \cup {<<"env", P.envs[e].id>> : e \in {x \in 1..Len(P.envs) :
            P.envs[x].rp # "none" /\ s \in {P.envs[x].f, P.envs[x].p}}}
  \cup {<<"ps", h[1], h[2]>> : h \in {x \in AllPS(P) : s \in Rng(PSRec(P, x).mem)}}
\* blocks: [key, mem (set), lv, dg]
Blocks(P) ==
  {[key |-> <<"own", s>>, mem |-> {s}, ord |-> <<s>>, lv |-> Sub(P, s).lv, dg |-> Sub(P, s).dg]
      : s \in {x \in Ids(P.subs) : Sub(P, x).rp # "none"}}
  \cup {[key |-> <<"env", P.envs[e].id>>, mem |-> {P.envs[e].f, P.envs[e].p},
         ord |-> IF Sub(P, P.envs[e].f).ix = <<0>> THEN <<P.envs[e].f, P.envs[e].p>> ELSE <<P.envs[e].p, P.envs[e].f>>,
         lv |-> P.envs[e].lv, dg |-> P.envs[e].dg]
      : e \in {x \in 1..Len(P.envs) : P.envs[x].rp # "none"}}
  \cup {[key |-> <<"ps", PSRec(P, h).pid>>, mem |-> Rng(PSRec(P, h).mem), ord |-> PSRec(P, h).mem,
         lv |-> PSRec(P, h).lv, dg |-> PSRec(P, h).dg] : h \in AllPS(P)}
BlockOfSub(P, s) == {b \in Blocks(P) : s \in b.mem}

(***************************************************************************)
(* C13  the bookkeeping is truthful                                        *)
(***************************************************************************)
OneHome(P) == \A s \in Live(P) : Cardinality(Homes(P, s)) = 1
IndexNamesHome(P) ==
  \A s \in Live(P) : \A h \in Homes(P, s) :
     LET r == Sub(P, s) IN
     CASE h[1] = "own" -> r.ix = <<>>
       [] h[1] = "env" -> /\ r.ix \in {<<0>>, <<1>>}
                          /\ LET e == ById(P.envs, h[2]) IN Sub(P, e.f).ix # Sub(P, e.p).ix
       [] h[1] = "ps"  -> /\ Len(r.ix) = 2
                          /\ r.ix[1] = h[3] - 1
                          /\ r.ix[2] + 1 \in 1..Len(ById(P.conts, h[2]).ps[h[3]].mem)
                          /\ ById(P.conts, h[2]).ps[h[3]].mem[r.ix[2] + 1] = s
\* every handle resolves to a registered container, and the container lists it
HandlesAgree(P) ==
  /\ \A i \in 1..Len(P.hnd) : P.hnd[i].reg /\ HasId(P.conts, P.hnd[i].cont)
  /\ \A c \in 1..Len(P.conts) : \A h \in Rng(P.conts[c].hs) : ById(P.hnd, h).cont = P.conts[c].id
\* merging: every handle of a merged composite, and the new handle, resolve to one container,
\* which holds every envelope, subsystem and product space the merged ones held
MergeUnifies(pre, post, ev) ==
  (ev.a = "new_composite" /\ ev.res = "ok") =>
     LET old == {pre.hnd[i].id : i \in {j \in 1..Len(pre.hnd) : pre.hnd[j].cont \in Rng(ev.conts)}}
         tgt == ById(post.hnd, ev.h).cont
         C   == ById(post.conts, tgt)
     IN  /\ \A h \in old : ById(post.hnd, h).cont = tgt
         /\ \A c \in 1..Len(pre.conts) : (pre.conts[c].id \in Rng(ev.conts)) =>
               /\ Rng(pre.conts[c].envs) \subseteq Rng(C.envs)
               /\ Rng(pre.conts[c].objs) \subseteq Rng(C.objs)
               /\ {pre.conts[c].ps[k].pid : k \in 1..Len(pre.conts[c].ps)} \subseteq {C.ps[k].pid : k \in 1..Len(C.ps)}
         /\ \A s \in Rng(ev.addr) : s \in Rng(C.objs)
BackPointers(P) ==
  /\ \A c \in 1..Len(P.conts) :
        /\ \A e \in Rng(P.conts[c].envs) : ById(P.envs, e).cc = P.conts[c].id
        /\ \A k \in 1..Len(P.conts[c].ps) : \A s \in Rng(P.conts[c].ps[k].mem) :
              /\ Sub(P, s).cc = P.conts[c].id
              /\ s \in Rng(P.conts[c].objs)
NoDupNoEmpty(P) ==
  \A c \in 1..Len(P.conts) :
     /\ \A k \in 1..Len(P.conts[c].ps) : Len(P.conts[c].ps[k].mem) > 0
     /\ \A k1, k2 \in 1..Len(P.conts[c].ps) : k1 # k2 => P.conts[c].ps[k1].pid # P.conts[c].ps[k2].pid
     /\ \A k \in 1..Len(P.conts[c].ps) : \A j1, j2 \in 1..Len(P.conts[c].ps[k].mem) :
           j1 # j2 => P.conts[c].ps[k].mem[j1] # P.conts[c].ps[k].mem[j2]
\* a call that addresses nothing of container c leaves c and everything stored in it unchanged
ContOfSub(P, s) == Sub(P, s).cc
Isolation(pre, post, ev) ==
  \A c \in 1..Len(pre.conts) :
     LET cid == pre.conts[c].id
         touched == \/ \E s \in Rng(ev.addr) : HasId(pre.subs, s) /\
                          (ContOfSub(pre, s) = cid \/ s \in Rng(pre.conts[c].objs)
                           \/ (Sub(pre, s).env # 0 /\ Sub(pre, s).env \in Rng(pre.conts[c].envs)))
                    \/ cid \in Rng(ev.conts)
     IN  touched \/ ~HasId(post.conts, cid) \/
         (/\ ById(post.conts, cid) = pre.conts[c]
          /\ \A s \in Rng(pre.conts[c].objs) : Sub(post, s) = Sub(pre, s))

(***************************************************************************)
(* C07  every stored state is a valid state of its claimed form            *)
(***************************************************************************)
LvOfRp(rp) == CASE rp \in {"int", "enum"} -> "L" [] rp = "vec" -> "V" [] rp = "mat" -> "M" [] OTHER -> "?"
TagMatchesRepr(P) ==
  /\ \A s \in Live(P) : Sub(P, s).rp # "none" => Sub(P, s).lv = LvOfRp(Sub(P, s).rp)
  /\ \A e \in 1..Len(P.envs) : P.envs[e].rp # "none" => (P.envs[e].rp \in {"vec", "mat"} /\ P.envs[e].lv = LvOfRp(P.envs[e].rp))
  /\ \A h \in AllPS(P) : PSRec(P, h).rp \in {"vec", "mat"} /\ PSRec(P, h).lv = LvOfRp(PSRec(P, h).rp)
ShapeIsProduct(P) ==
  /\ \A s \in Live(P) : Sub(P, s).rp \in {"vec", "mat"} => Sub(P, s).n = Sub(P, s).dim
  /\ \A e \in 1..Len(P.envs) : P.envs[e].rp # "none" =>
        P.envs[e].n = Sub(P, P.envs[e].f).dim * Sub(P, P.envs[e].p).dim
  /\ \A h \in AllPS(P) : PSRec(P, h).n = ProdSeq([j \in 1..Len(PSRec(P, h).mem) |-> Sub(P, PSRec(P, h).mem[j]).dim], 1)
MembersShareLevel(P) ==
  \A b \in Blocks(P) : \A s \in b.mem : Sub(P, s).lv = b.lv
FlagsOK(rp, fl) == CASE rp = "vec" -> fl[1] /\ fl[2]
                     [] rp = "mat" -> fl[1] /\ fl[2] /\ fl[3] /\ fl[4]
                     [] OTHER -> TRUE
NumericOK(P) ==
  /\ \A s \in Live(P) :
        LET r == Sub(P, s) IN
        /\ r.rp = "int" => (r.n >= 0 /\ (r.dim > 0 => r.n < r.dim))
        /\ r.rp \notin {"other"}
        /\ FlagsOK(r.rp, r.fl)
        /\ r.k = "P" => r.dim = 2
  /\ \A e \in 1..Len(P.envs) : FlagsOK(P.envs[e].rp, P.envs[e].fl)
  /\ \A h \in AllPS(P) : FlagsOK(PSRec(P, h).rp, PSRec(P, h).fl)

(***************************************************************************)
(* C05  destroyed subsystems are gone, custom states are never destroyed   *)
(***************************************************************************)
PartnersOf(P, s) == IF Sub(P, s).env = 0 THEN {}
                    ELSE {x \in Ids(P.subs) : x # s /\ Sub(P, x).env = Sub(P, s).env}
Named(pre, ev) == {s \in Rng(ev.addr) : HasId(pre.subs, s)}
\* the set a projective measurement request is specified to measure: the named subsystems plus
\* their live envelope partners unless separate_measurement
MeasuredSet(pre, ev) ==
  IF ev.a # "measure" THEN {}
  ELSE Named(pre, ev) \cup (IF ev.sep THEN {}
                            ELSE UNION {{p \in PartnersOf(pre, s) : ~Sub(pre, p).ms} : s \in Named(pre, ev)})
\* what a measurement-type request may touch at most (partner handling of POVMs is left open)
MayMeasure(pre, ev) ==
  IF ev.a \notin {"measure", "measure_POVM"} THEN {}
  ELSE Named(pre, ev) \cup UNION {PartnersOf(pre, s) : s \in Named(pre, ev)}
MeasuredGone(P) ==
  \A s \in Ids(P.subs) :
     LET r == Sub(P, s) IN
     /\ (r.k = "C") => ~r.ms
     /\ r.ms => (r.rp = "none" /\ r.ix = <<>> /\ r.lv = "-" /\ \A h \in AllPS(P) : s \notin Rng(PSRec(P, h).mem))
\* destroyed subsystems can only have been named by a measurement-type call, and once destroyed stay so
OnlyMeasurementDestroys(pre, post, ev) ==
  \A s \in Ids(pre.subs) :
     /\ Sub(pre, s).ms => (HasId(post.subs, s) => Sub(post, s).ms)
     /\ (~Sub(pre, s).ms /\ HasId(post.subs, s) /\ Sub(post, s).ms) =>
           (ev.a \in {"measure", "measure_POVM"} /\ ev.destr /\ s \in MayMeasure(pre, ev))
\* an outcome dictionary names exactly the measured set of the call, one entry per object
OutcomeKeys(pre, ev) ==
  (ev.a = "measure" /\ ev.res = "ok") => (Rng(ev.keys) = MeasuredSet(pre, ev) /\ Len(ev.keys) = Cardinality(Rng(ev.keys)))
DestroyedRejected(pre, ev) ==
  (ev.a \in {"measure", "measure_POVM", "apply_operation", "apply_kraus"} /\
   \E s \in Rng(ev.addr) : HasId(pre.subs, s) /\ Sub(pre, s).ms) => ev.res = "exc"

(***************************************************************************)
(* C17  a rejected call leaves the physics and the live set alone          *)
(***************************************************************************)
\* (judged for requests the driver issued as deliberately invalid; an unexpected error on a valid
\*  request is the business of the property that covers that call)
RejectedIsNoop(pre, post, ev) ==
  (ev.res = "exc" /\ ev.intent = "invalid") =>
     /\ ev.jc \in {"same", "skip", "unobs"}
     /\ \A s \in Ids(pre.subs) : HasId(post.subs, s) /\ Sub(post, s).ms = Sub(pre, s).ms
     /\ \A e \in 1..Len(pre.envs) : HasId(post.envs, pre.envs[e].id) /\ ById(post.envs, pre.envs[e].id).cc = pre.envs[e].cc

(***************************************************************************)
(* C02 / C08  structural calls never change the physics (logged comparison) *)
(***************************************************************************)
StructuralCalls == {"combine", "reorder", "expand", "contract", "trace_out", "resize", "resize_fock",
                    "new_composite", "set_contraction", "set_seed", "new_envelope", "new_custom"}
\* ("unobs": the bookkeeping is too broken to rebuild the joint state - that is reported by the
\*  C13 / C07 clauses, the physics comparison abstains instead of guessing)
StructuralKeepsJoint(ev) == (ev.a \in StructuralCalls) => ev.jc \in {"same", "skip", "unobs"}

(***************************************************************************)
(* C10  reported Fock dimension is the axis length (part of ShapeIsProduct) *)
(*      and a resize never loses population (logged joint comparison)      *)
(***************************************************************************)
ResizeReturn(pre, post, ev) ==
  (ev.a \in {"resize", "resize_fock"} /\ ev.res = "ok" /\ Len(ev.addr) = 1 /\ HasId(post.subs, ev.addr[1])) =>
     LET s == ev.addr[1] IN
     /\ ev.ret = "true"  => Sub(post, s).dim = ev.n
     /\ ev.ret = "false" => Sub(post, s).dim = Sub(pre, s).dim

(***************************************************************************)
(* Requests outside the exact lattice (continuous-parameter programs): the *)
(* harness evaluates the specification's rule on the recorded state before *)
(* the call (U rho U^dagger with U = exp(generator of Gates.tla) at a      *)
(* cutoff 60 levels above the one the library chose; sum_i (K_i x I) rho   *)
(* (K_i x I)^dagger with factors in the order given) and logs, in units of *)
(* 1e-9:  tail = population of that ideal result beyond the chosen cutoff, *)
(*        dev  = largest entry-wise difference to the recorded result.     *)
(* C10: the automatically chosen cutoff loses at most the documented       *)
(*      threshold (1e-6 of the population; 1e-5 allowed here) and the      *)
(*      result is the ideal one up to the corresponding amplitude error.   *)
(* C06: the channel is the stated map.                                     *)
(***************************************************************************)
HasMdl(ev) == "mdl" \in DOMAIN ev
CutoffAdequate(ev) ==
  (HasMdl(ev) /\ ev.res = "ok" /\ ev.mdl.k = "cut") => (ev.mdl.tail <= 10000 /\ ev.mdl.dev <= 3000000)
ChannelMatchesModel(ev) ==
  (HasMdl(ev) /\ ev.res = "ok" /\ ev.mdl.k = "kraus") => ev.mdl.dev <= 10000

(***************************************************************************)
(* C20  blocks are joined only when needed; bystanders are untouched       *)
(***************************************************************************)
Addressed(pre, ev) == Rng(ev.addr) \cup MayMeasure(pre, ev)
BystanderUntouched(pre, post, ev) ==
  \A b \in Blocks(pre) :
     (b.mem \cap Addressed(pre, ev) = {}) =>
        \E c \in Blocks(post) : c.mem = b.mem /\ c.ord = b.ord /\ c.lv = b.lv /\ c.dg = b.dg /\ c.key[1] = b.key[1]
MergeOnlyAddressed(pre, post, ev) ==
  LET touched == UNION {b.mem : b \in {x \in Blocks(pre) : x.mem \cap Addressed(pre, ev) # {}}}
  IN  \A c \in Blocks(post) :
         \/ \E b \in Blocks(pre) : b.mem = c.mem
         \/ c.mem \subseteq touched
SingleNeverGrows(pre, post, ev) ==
  (Cardinality(Addressed(pre, ev)) = 1 /\ ev.a \notin {"new_composite", "new_envelope", "new_custom"}) =>
     \A s \in Addressed(pre, ev) : \A c \in BlockOfSub(post, s) : \A b \in BlockOfSub(pre, s) :
        Cardinality(c.mem) <= Cardinality(b.mem)
MeasuredLeaves(post, ev) ==
  (ev.a = "measure" /\ ev.res = "ok") =>
     \A s \in Rng(ev.keys) : \A c \in BlockOfSub(post, s) : c.mem = {s}

(***************************************************************************)
(* clause table: names of all clauses violated by one step                 *)
(***************************************************************************)
Verdict(pre, post, ev) ==
  LET ok == ev.res = "ok" IN
  {n \in {"MergeUnifies", "OneHome", "IndexNamesHome", "HandlesAgree", "BackPointers", "NoDupNoEmpty", "Isolation",
          "TagMatchesRepr", "ShapeIsProduct", "MembersShareLevel", "NumericOK",
          "MeasuredGone", "OnlyMeasurementDestroys", "OutcomeKeys", "DestroyedRejected",
          "RejectedIsNoop", "StructuralKeepsJoint", "ResizeReturn", "CutoffAdequate", "ChannelMatchesModel",
          "BystanderUntouched", "MergeOnlyAddressed", "SingleNeverGrows", "MeasuredLeaves"} :
     ~ CASE n = "OneHome" -> OneHome(post)
         [] n = "IndexNamesHome" -> OneHome(post) => IndexNamesHome(post)
         [] n = "HandlesAgree" -> HandlesAgree(post)
         [] n = "MergeUnifies" -> MergeUnifies(pre, post, ev)
         [] n = "BackPointers" -> BackPointers(post)
         [] n = "NoDupNoEmpty" -> NoDupNoEmpty(post)
         [] n = "Isolation" -> Isolation(pre, post, ev)
         [] n = "TagMatchesRepr" -> TagMatchesRepr(post)
         [] n = "ShapeIsProduct" -> ShapeIsProduct(post)
         [] n = "MembersShareLevel" -> MembersShareLevel(post)
         [] n = "NumericOK" -> NumericOK(post)
         [] n = "MeasuredGone" -> MeasuredGone(post)
         [] n = "OnlyMeasurementDestroys" -> OnlyMeasurementDestroys(pre, post, ev)
         [] n = "OutcomeKeys" -> OutcomeKeys(pre, ev)
         [] n = "DestroyedRejected" -> DestroyedRejected(pre, ev)
         [] n = "RejectedIsNoop" -> RejectedIsNoop(pre, post, ev)
         [] n = "StructuralKeepsJoint" -> StructuralKeepsJoint(ev)
         [] n = "ResizeReturn" -> ResizeReturn(pre, post, ev)
         [] n = "CutoffAdequate" -> CutoffAdequate(ev)
         [] n = "ChannelMatchesModel" -> ChannelMatchesModel(ev)
         [] n = "BystanderUntouched" -> (ok /\ OneHome(pre) /\ OneHome(post)) => BystanderUntouched(pre, post, ev)
         [] n = "MergeOnlyAddressed" -> (ok /\ OneHome(pre) /\ OneHome(post)) => MergeOnlyAddressed(pre, post, ev)
         [] n = "SingleNeverGrows" -> (ok /\ OneHome(pre) /\ OneHome(post)) => SingleNeverGrows(pre, post, ev)
         [] n = "MeasuredLeaves" -> OneHome(post) => MeasuredLeaves(post, ev)}

ClauseProperty ==
  [MergeUnifies |-> "C13", OneHome |-> "C13", IndexNamesHome |-> "C13", HandlesAgree |-> "C13", BackPointers |-> "C13",
   NoDupNoEmpty |-> "C13", Isolation |-> "C13",
   TagMatchesRepr |-> "C07", ShapeIsProduct |-> "C07", MembersShareLevel |-> "C07", NumericOK |-> "C07",
   MeasuredGone |-> "C05", OnlyMeasurementDestroys |-> "C05", OutcomeKeys |-> "C05", DestroyedRejected |-> "C05",
   RejectedIsNoop |-> "C17", StructuralKeepsJoint |-> "C02", ResizeReturn |-> "C10",
   CutoffAdequate |-> "C10", ChannelMatchesModel |-> "C06",
   BystanderUntouched |-> "C20", MergeOnlyAddressed |-> "C20", SingleNeverGrows |-> "C20", MeasuredLeaves |-> "C20"]
=============================================================================

CONSTANTS
  Seeds = {1, 2, 3}
  Dists = {"d2", "d3"}
  MaxPrefix = 3
  MaxProgram = 4
INIT Init
NEXT Next
INVARIANT Fresh
INVARIANT Reproducible
INVARIANT Independent
CHECK_DEADLOCK FALSE

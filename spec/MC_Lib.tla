------------------------------- MODULE MC_Lib -------------------------------
(* Exports the operator library of Gates.tla as JSON for the conformance harness. *)
EXTENDS Gates, Json, TLC
MCDim == <<2>>
SX == INSTANCE SequencesExt
AllGateIds == PolGateIds \cup FockGateIds \cup CompGateIds
              \cup {"Num", "PS4", "PS6", "BS0", "BS4", "BS6", "BS7", "RX0", "RX4", "RX6", "RX7"}
GateX(g) == CASE g = "RX0" -> GRX(0) [] g = "RX4" -> GRX(4) [] g = "RX6" -> GRX(6) [] g = "RX7" -> GRX(7)
              [] OTHER -> Gate(g)
CustomIds == {"shear", "proj0", "lower", "iskew", "cyc3", "mix3"}
GenPts == {<<1, 0>>, <<0, 1>>, <<1, 1>>, <<2, -1>>, <<-1, 2>>}
Lib == [gates  |-> [g \in AllGateIds |-> GateX(g)],
        dgen   |-> [i \in 1..5 |-> LET z == SX!SetToSeq(GenPts)[i] IN [p |-> z[1], q |-> z[2], op |-> GDispGen(z[1], z[2])]],
        sgen   |-> [i \in 1..5 |-> LET z == SX!SetToSeq(GenPts)[i] IN [p |-> z[1], q |-> z[2], op |-> GSqGen(z[1], z[2])]],
        custom |-> [c \in CustomIds |-> CustomMat(c)],
        kraus  |-> [c \in KrausIds |-> KrausSet(c)],
        povm   |-> [c \in PovmIds |-> PovmSet(c)]]
ASSUME JsonSerialize("speclib.json", Lib)
VARIABLE x
Init == x = 0
Next == UNCHANGED x
=============================================================================

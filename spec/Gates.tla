------------------------------- MODULE Gates -------------------------------
(***************************************************************************)
(* The operator library of photon_weave, written down from the textbook    *)
(* definitions (NOT from the code) on the pi/4 lattice, in exact           *)
(* arithmetic.  Every operator is a record                                 *)
(*     [d |-> dimension, m |-> matrix (sequence of rows), s |-> k]         *)
(* denoting the complex matrix  m / sqrt2^k.                               *)
(*                                                                         *)
(* Gate identifiers are strings; parametrised families carry the lattice   *)
(* index in the name: "RX3" = RX(theta = 3*pi/2), "PS5" = phase shift      *)
(* phi = 5*pi/4, "BS1" = beam splitter eta = pi/4, "U3_p_t_o" =            *)
(* U3(phi = p*pi/2, theta = t*pi/2, omega = o*pi/2).                       *)
(***************************************************************************)
EXTENDS Tensor

M2(a, b, c, d) == << <<a, b>>, <<c, d>> >>
Op(d, m, s) == [d |-> d, m |-> m, s |-> s]
Diag3(a, b, c) == << <<a, R0, R0>>, <<R0, b, R0>>, <<R0, R0, c>> >>

(* ------------------------- polarization (d = 2) ------------------------- *)
GI   == Op(2, M2(R1, R0, R0, R1), 0)
GX   == Op(2, M2(R0, R1, R1, R0), 0)
GY   == Op(2, M2(R0, RMI, RI, R0), 0)
GZ   == Op(2, M2(R1, R0, R0, RM1), 0)
GH   == Op(2, M2(R1, R1, R1, RM1), 1)                      \* (1/sqrt2) [[1,1],[1,-1]]
GS   == Op(2, M2(R1, R0, R0, RI), 0)
GT   == Op(2, M2(RS2, R0, R0, E8(1)), 1)                   \* diag(1, e^{i pi/4})
GSX  == Op(2, M2(<<1,0,1,0>>, <<1,0,-1,0>>, <<1,0,-1,0>>, <<1,0,1,0>>), 2)   \* (1/2)[[1+i,1-i],[1-i,1+i]]
\* rotations by theta = k*pi/2:  cos(theta/2) = cos(k*pi/4)
GRX(k) == Op(2, M2(C8(k), RNeg(RTimesI(S8(k))), RNeg(RTimesI(S8(k))), C8(k)), 1)
GRY(k) == Op(2, M2(C8(k), RNeg(S8(k)), S8(k), C8(k)), 1)
GRZ(k) == Op(2, M2(E8(-k), R0, R0, E8(k)), 1)
\* U3(phi, theta, omega) = [[cos(t/2), -e^{i omega} sin(t/2)], [e^{i phi} sin(t/2), e^{i(phi+omega)} cos(t/2)]]
GU3(p, t, o) == Op(2, M2(C8(t), RNeg(RMul(IPow(o), S8(t))),
                         RMul(IPow(p), S8(t)), RMul(IPow(p+o), C8(t))), 1)

(* -------------------------- Fock (model d = 3) -------------------------- *)
\* a|n> = sqrt(n)|n-1>,  a^dagger|n> = sqrt(n+1)|n+1>, truncated to levels 0..2
GAnn == Op(3, << <<R0, R1, R0>>, <<R0, R0, RS2>>, <<R0, R0, R0>> >>, 0)
GCre == Op(3, << <<R0, R0, R0>>, <<R1, R0, R0>>, <<R0, RS2, R0>> >>, 0)
GNum == Op(3, Diag3(R0, R1, R2), 0)
GFId == Op(3, Diag3(R1, R1, R1), 0)
\* phase shift exp(i phi n), phi = k*pi/4
GPS(k) == Op(3, Diag3(RS2, E8(k), E8(2*k)), 1)

\* generators of displacement and squeezing on the integer lattice alpha, zeta = p + i q (levels 0..2):
\*   D(alpha) = exp(alpha a^dagger - conj(alpha) a),   S(zeta) = exp((conj(zeta) a^2 - zeta a^dagger^2) / 2)
\* The exponentials are transcendental, but d/d(eps) of D(eps alpha), S(eps zeta) at eps = 0 is exactly the generator,
\* which fixes every sign / conjugation convention; the harness compares it with a symmetric finite difference.
ZLat(p, q) == <<p, 0, q, 0>>
GDispGen(p, q) == Op(3, MatAdd(MatScale(ZLat(p, q), GCre.m, 3), MatScale(RNeg(RConj(ZLat(p, q))), GAnn.m, 3), 3), 0)
GSqGen(p, q) == Op(3, MatAdd(MatScale(RConj(ZLat(p, q)), MatMul(GAnn.m, GAnn.m, 3), 3),
                             MatScale(RNeg(ZLat(p, q)), MatMul(GCre.m, GCre.m, 3), 3), 3), 2)     \* (...)/2

(* beam splitter on two modes with at most two photons in total, from the SU(2) mode
   transformation  a^dagger -> cos(eta) a^dagger + i sin(eta) b^dagger,
                   b^dagger -> i sin(eta) a^dagger + cos(eta) b^dagger     (eta = k*pi/4).
   Written block by block on the photon-number sectors (common scale 1/2):
     n = 0 : 1
     n = 1 : [[c, is], [is, c]]                         on |1,0>, |0,1>
     n = 2 : [[c^2, i sqrt2 cs, -s^2],
              [i sqrt2 cs, c^2 - s^2, i sqrt2 cs],
              [-s^2, i sqrt2 cs, c^2]]                  on |2,0>, |1,1>, |0,2>
   Basis states with more than two photons are outside the model; the matrix is the
   (scaled) identity there and the action is never enabled on such support. *)
BSEntry(k, r, c) ==
  LET cc == C8(k)  ss == S8(k)                 \* sqrt2*cos, sqrt2*sin
      n1r == r \div 3  n2r == r % 3  n1c == c \div 3  n2c == c % 3
      c2 == RMul(cc, cc)  s2 == RMul(ss, ss)  ics == RTimesI(RMul(cc, ss))   \* 2c^2, 2s^2, 2ics
  IN  IF n1r + n2r # n1c + n2c THEN R0
      ELSE IF n1r + n2r = 0 THEN R2
      ELSE IF n1r + n2r = 1 THEN
           (IF r = c THEN RTimesS2(cc) ELSE RTimesI(RTimesS2(ss)))
      ELSE IF n1r + n2r = 2 THEN
           (IF r = c THEN (IF n1r = 1 THEN RSub(c2, s2) ELSE c2)
            ELSE IF n1r = 1 \/ n1c = 1 THEN RTimesS2(ics)
            ELSE RNeg(s2))
      ELSE (IF r = c THEN R2 ELSE R0)
GBS(k) == Op(9, [r \in 1..9 |-> [c \in 1..9 |-> BSEntry(k, r-1, c-1)]], 2)

(* --------------------------- two / three qubit -------------------------- *)
P0 == M2(R1, R0, R0, R0)
P1 == M2(R0, R0, R0, R1)
\* CNOT = |0><0| x I + |1><1| x X   (control = first operand)
GCX   == Op(4, MatAdd(MatKron(P0, 2, GI.m, 2), MatKron(P1, 2, GX.m, 2), 4), 0)
GCZ   == Op(4, MatAdd(MatKron(P0, 2, GI.m, 2), MatKron(P1, 2, GZ.m, 2), 4), 0)
\* SWAP|a,b> = |b,a>
GSWAP == Op(4, [r \in 1..4 |-> [c \in 1..4 |->
              IF (r-1) \div 2 = (c-1) % 2 /\ (r-1) % 2 = (c-1) \div 2 THEN R1 ELSE R0]], 0)
\* CSWAP = |0><0| x I4 + |1><1| x SWAP
GCSWAP == Op(8, MatAdd(MatKron(P0, 2, MatId(4), 4), MatKron(P1, 2, GSWAP.m, 4), 8), 0)

(* ------------------------------ dispatch -------------------------------- *)
PolGateIds  == {"I", "X", "Y", "Z", "H", "S", "T", "SX"}
               \cup {"RX1","RX2","RX3","RY1","RY2","RY3","RZ1","RZ2","RZ3","RX5","RZ7","RY6"}
               \cup {"U3_0_1_0", "U3_1_1_2", "U3_3_2_1", "U3_2_3_3"}
FockGateIds == {"Cre", "Ann", "FId", "PS1", "PS2", "PS3", "PS5", "PS7"}
CompGateIds == {"CX", "CZ", "SWAP", "CSWAP", "BS1", "BS2", "BS3", "BS5"}

Digit(ch) == CASE ch = "0" -> 0 [] ch = "1" -> 1 [] ch = "2" -> 2 [] ch = "3" -> 3 [] ch = "4" -> 4
               [] ch = "5" -> 5 [] ch = "6" -> 6 [] ch = "7" -> 7 [] ch = "8" -> 8 [] ch = "9" -> 9

Gate(g) ==
  CASE g = "I" -> GI [] g = "X" -> GX [] g = "Y" -> GY [] g = "Z" -> GZ [] g = "H" -> GH
    [] g = "S" -> GS [] g = "T" -> GT [] g = "SX" -> GSX
    [] g = "RX1" -> GRX(1) [] g = "RX2" -> GRX(2) [] g = "RX3" -> GRX(3) [] g = "RX5" -> GRX(5)
    [] g = "RY1" -> GRY(1) [] g = "RY2" -> GRY(2) [] g = "RY3" -> GRY(3) [] g = "RY6" -> GRY(6)
    [] g = "RZ1" -> GRZ(1) [] g = "RZ2" -> GRZ(2) [] g = "RZ3" -> GRZ(3) [] g = "RZ7" -> GRZ(7)
    [] g = "U3_0_1_0" -> GU3(0,1,0) [] g = "U3_1_1_2" -> GU3(1,1,2)
    [] g = "U3_3_2_1" -> GU3(3,2,1) [] g = "U3_2_3_3" -> GU3(2,3,3)
    [] g = "Cre" -> GCre [] g = "Ann" -> GAnn [] g = "FId" -> GFId [] g = "Num" -> GNum
    [] g = "PS1" -> GPS(1) [] g = "PS2" -> GPS(2) [] g = "PS3" -> GPS(3) [] g = "PS5" -> GPS(5)
    [] g = "PS7" -> GPS(7) [] g = "PS4" -> GPS(4) [] g = "PS6" -> GPS(6)
    [] g = "CX" -> GCX [] g = "CZ" -> GCZ [] g = "SWAP" -> GSWAP [] g = "CSWAP" -> GCSWAP
    [] g = "BS1" -> GBS(1) [] g = "BS2" -> GBS(2) [] g = "BS3" -> GBS(3) [] g = "BS5" -> GBS(5)
    [] g = "BS7" -> GBS(7) [] g = "BS4" -> GBS(4) [] g = "BS6" -> GBS(6) [] g = "BS0" -> GBS(0)

(* ----------- user-supplied ("Custom") matrices, channels, POVMs --------- *)
\* Custom single-subsystem operators (non-unitary ones exercise renormalisation, the projector
\* exercises the all-zero rejection).  d = 2 for polarization / custom state, d = 3 for Fock.
CustomMat(c) ==
  CASE c = "shear"  -> Op(2, M2(R1, R1, R0, R1), 0)          \* [[1,1],[0,1]]  non-unitary
    [] c = "proj0"  -> Op(2, P0, 0)                           \* |0><0|
    [] c = "lower"  -> Op(2, M2(R0, R1, R0, R0), 0)           \* |0><1|
    [] c = "iskew"  -> Op(2, M2(R1, RI, R0, RS2), 0)          \* [[1,i],[0,sqrt2]] complex non-unitary
    [] c = "cyc3"   -> Op(3, << <<R0, R0, R1>>, <<R1, R0, R0>>, <<R0, R1, R0>> >>, 0)   \* |n> -> |n+1 mod 3>
    [] c = "mix3"   -> Op(3, << <<R1, R1, R0>>, <<R0, R1, RI>>, <<R0, R0, R1>> >>, 0)   \* non-unitary

\* Kraus sets: sequences of matrices with one common scale, sum K^dagger K = I
KrausSet(c) ==
  CASE c = "bitflip" -> [d |-> 2, s |-> 1, ks |-> <<GI.m, GX.m>>]                    \* {I, X}/sqrt2
    [] c = "dephase" -> [d |-> 2, s |-> 0, ks |-> <<P0, P1>>]
    [] c = "ampdamp" -> [d |-> 2, s |-> 1, ks |-> <<M2(RS2, R0, R0, R1), M2(R0, R1, R0, R0)>>]  \* gamma = 1/2
    [] c = "phaseflipY" -> [d |-> 2, s |-> 1, ks |-> <<GI.m, GY.m>>]
    [] c = "unitS"   -> [d |-> 2, s |-> 0, ks |-> <<GS.m>>]
    [] c = "unitH"   -> [d |-> 2, s |-> 1, ks |-> <<GH.m>>]
    [] c = "deph3"   -> [d |-> 3, s |-> 0, ks |-> <<Diag3(R1, R0, R0), Diag3(R0, R1, R0), Diag3(R0, R0, R1)>>]
    [] c = "loss3"   -> [d |-> 3, s |-> 0,                   \* lose every photon: |n> -> |0>
                         ks |-> << << <<R1,R0,R0>>, <<R0,R0,R0>>, <<R0,R0,R0>> >>,
                                   << <<R0,R1,R0>>, <<R0,R0,R0>>, <<R0,R0,R0>> >>,
                                   << <<R0,R0,R1>>, <<R0,R0,R0>>, <<R0,R0,R0>> >> >>]
    \* two-subsystem sets (4 x 4): products of the above, asymmetric under exchange
    [] c = "flipXdamp" -> [d |-> 4, s |-> 2,
                           ks |-> << MatKron(GI.m, 2, M2(RS2, R0, R0, R1), 2),
                                     MatKron(GI.m, 2, M2(R0, R1, R0, R0), 2),
                                     MatKron(GX.m, 2, M2(RS2, R0, R0, R1), 2),
                                     MatKron(GX.m, 2, M2(R0, R1, R0, R0), 2) >>]
    [] c = "corrflip" -> [d |-> 4, s |-> 1, ks |-> << MatId(4), MatKron(GX.m, 2, GZ.m, 2) >>]
    [] c = "unitCX"   -> [d |-> 4, s |-> 0, ks |-> << GCX.m >>]
    \* polarization x Fock (d = 2 x 3) and Fock x polarization (3 x 2): bit flip with photon-number dephasing
    [] c = "flipXdeph3" -> [d |-> 6, s |-> 1,
                            ks |-> << MatKron(GI.m, 2, Diag3(R1, R0, R0), 3), MatKron(GI.m, 2, Diag3(R0, R1, R0), 3),
                                      MatKron(GI.m, 2, Diag3(R0, R0, R1), 3), MatKron(GX.m, 2, Diag3(R1, R0, R0), 3),
                                      MatKron(GX.m, 2, Diag3(R0, R1, R0), 3), MatKron(GX.m, 2, Diag3(R0, R0, R1), 3) >>]
    \* correlated / entangling sets on polarization x Fock: they correlate the two members of ONE envelope
    [] c = "corrflip6"  -> [d |-> 6, s |-> 1, ks |-> << MatId(6), MatKron(GX.m, 2, CustomMat("cyc3").m, 3) >>]
    [] c = "ctrlshift6" -> [d |-> 6, s |-> 0,                \* |H><H| x I + |V><V| x (n -> n+1 mod 3): unitary, entangling
                            ks |-> << MatAdd(MatKron(P0, 2, MatId(3), 3), MatKron(P1, 2, CustomMat("cyc3").m, 3), 6) >>]
    [] c = "loss3Xdamp" -> [d |-> 6, s |-> 1,
                            ks |-> << MatKron(<< <<R1,R0,R0>>, <<R0,R0,R0>>, <<R0,R0,R0>> >>, 3, M2(RS2, R0, R0, R1), 2),
                                      MatKron(<< <<R0,R1,R0>>, <<R0,R0,R0>>, <<R0,R0,R0>> >>, 3, M2(RS2, R0, R0, R1), 2),
                                      MatKron(<< <<R0,R0,R1>>, <<R0,R0,R0>>, <<R0,R0,R0>> >>, 3, M2(RS2, R0, R0, R1), 2),
                                      MatKron(<< <<R1,R0,R0>>, <<R0,R0,R0>>, <<R0,R0,R0>> >>, 3, M2(R0, R1, R0, R0), 2),
                                      MatKron(<< <<R0,R1,R0>>, <<R0,R0,R0>>, <<R0,R0,R0>> >>, 3, M2(R0, R1, R0, R0), 2),
                                      MatKron(<< <<R0,R0,R1>>, <<R0,R0,R0>>, <<R0,R0,R0>> >>, 3, M2(R0, R1, R0, R0), 2) >>]

\* POVM sets given by measurement operators M_i with sum M_i^dagger M_i = I;
\* p_i = Tr(M_i rho M_i^dagger), post-state M_i rho M_i^dagger
PovmSet(c) ==
  CASE c = "proj"    -> [d |-> 2, s |-> 0, ks |-> <<P0, P1>>]
    [] c = "xbasis"  -> [d |-> 2, s |-> 2, ks |-> <<M2(R1, R1, R1, R1), M2(R1, RM1, RM1, R1)>>]
    [] c = "nonproj" -> [d |-> 2, s |-> 1, ks |-> <<M2(RS2, R0, R0, R1), M2(R0, R0, R0, R1)>>]  \* diag(1,1/sqrt2), diag(0,1/sqrt2)
    [] c = "ybasis"  -> [d |-> 2, s |-> 2, ks |-> <<M2(R1, RMI, RI, R1), M2(R1, RI, RMI, R1)>>]
    [] c = "proj3"   -> [d |-> 3, s |-> 0, ks |-> <<Diag3(R1, R0, R0), Diag3(R0, R1, R0), Diag3(R0, R0, R1)>>]
    [] c = "projXnon" -> [d |-> 4, s |-> 1,
                          ks |-> << MatKron(P0, 2, M2(RS2, R0, R0, R1), 2), MatKron(P0, 2, M2(R0, R0, R0, R1), 2),
                                    MatKron(P1, 2, M2(RS2, R0, R0, R1), 2), MatKron(P1, 2, M2(R0, R0, R0, R1), 2) >>]
    [] c = "nonXproj3" -> [d |-> 6, s |-> 1,                 \* polarization (non-projective) x Fock (number projectors)
                           ks |-> << MatKron(M2(RS2, R0, R0, R1), 2, Diag3(R1, R0, R0), 3), MatKron(M2(RS2, R0, R0, R1), 2, Diag3(R0, R1, R0), 3),
                                     MatKron(M2(RS2, R0, R0, R1), 2, Diag3(R0, R0, R1), 3), MatKron(M2(R0, R0, R0, R1), 2, Diag3(R1, R0, R0), 3),
                                     MatKron(M2(R0, R0, R0, R1), 2, Diag3(R0, R1, R0), 3), MatKron(M2(R0, R0, R0, R1), 2, Diag3(R0, R0, R1), 3) >>]
    [] c = "proj3Xx" -> [d |-> 6, s |-> 2,                   \* Fock (number projectors) x polarization (X basis)
                         ks |-> << MatKron(Diag3(R1, R0, R0), 3, M2(R1, R1, R1, R1), 2), MatKron(Diag3(R0, R1, R0), 3, M2(R1, R1, R1, R1), 2),
                                   MatKron(Diag3(R0, R0, R1), 3, M2(R1, R1, R1, R1), 2), MatKron(Diag3(R1, R0, R0), 3, M2(R1, RM1, RM1, R1), 2),
                                   MatKron(Diag3(R0, R1, R0), 3, M2(R1, RM1, RM1, R1), 2), MatKron(Diag3(R0, R0, R1), 3, M2(R1, RM1, RM1, R1), 2) >>]
    \* measurement operators that are NOT normal (M M^dagger # M^dagger M): the probability is Tr(M rho M^dagger) = Tr(M^dagger M rho)
    [] c = "reset"   -> [d |-> 2, s |-> 0, ks |-> <<P0, M2(R0, R1, R0, R0)>>]                      \* |0><0|, |0><1|
    [] c = "damp"    -> [d |-> 2, s |-> 1, ks |-> <<M2(RS2, R0, R0, R1), M2(R0, R1, R0, R0)>>]      \* diag(1,1/sqrt2), |0><1|/sqrt2
    [] c = "jump3"   -> [d |-> 3, s |-> 0, ks |-> << Diag3(R1, R0, R0), << <<R0, R1, R0>>, <<R0, R0, R0>>, <<R0, R0, R0>> >>,
                                                     << <<R0, R0, R0>>, <<R0, R0, R1>>, <<R0, R0, R0>> >> >>]   \* |0><0|, |0><1|, |1><2|
    [] c = "resetXproj" -> [d |-> 4, s |-> 0,
                            ks |-> << MatKron(P0, 2, P0, 2), MatKron(P0, 2, P1, 2),
                                      MatKron(M2(R0, R1, R0, R0), 2, P0, 2), MatKron(M2(R0, R1, R0, R0), 2, P1, 2) >>]
    [] c = "bell"    -> [d |-> 4, s |-> 2,                   \* projectors on the four Bell states (x 2)
                         ks |-> << [r \in 1..4 |-> [cc \in 1..4 |-> IF r \in {1,4} /\ cc \in {1,4} THEN R1 ELSE R0]],
                                   [r \in 1..4 |-> [cc \in 1..4 |-> IF r \in {1,4} /\ cc \in {1,4} THEN (IF r = cc THEN R1 ELSE RM1) ELSE R0]],
                                   [r \in 1..4 |-> [cc \in 1..4 |-> IF r \in {2,3} /\ cc \in {2,3} THEN R1 ELSE R0]],
                                   [r \in 1..4 |-> [cc \in 1..4 |-> IF r \in {2,3} /\ cc \in {2,3} THEN (IF r = cc THEN R1 ELSE RM1) ELSE R0]] >>]

\* sum_i K_i^dagger K_i
RECURSIVE SumDagFrom(_, _, _)
SumDagFrom(ks, D, i) == IF i > Len(ks) THEN MatZero(D)
                        ELSE MatAdd(MatMul(MatDag(ks[i], D), ks[i], D), SumDagFrom(ks, D, i+1), D)
\* completeness: sum K^dagger K = sqrt2^(2 s) * I = 2^s * I
RECURSIVE Pow2(_)
Pow2(n) == IF n = 0 THEN 1 ELSE 2 * Pow2(n-1)
Complete(set) == SumDagFrom(set.ks, set.d, 1) = MatScale(RInt(Pow2(set.s)), MatId(set.d), set.d)

(* ------------------ identities that validate this library --------------- *)
\* U U^dagger = 2^s I
UnitaryUpToScale(g) == MatMul(g.m, MatDag(g.m, g.d), g.d) = MatScale(RInt(Pow2(g.s)), MatId(g.d), g.d)
\* A = lambda B for ring elements: compare cross products entrywise
SameRay(A, B, D) == \A r1, c1, r2, c2 \in 1..D : RMul(A[r1][c1], B[r2][c2]) = RMul(A[r2][c2], B[r1][c1])
\* exact equality of the denoted matrices  A/sqrt2^sa = B/sqrt2^sb
RECURSIVE S2Pow(_)
S2Pow(n) == IF n = 0 THEN R1 ELSE RTimesS2(S2Pow(n-1))
SameOp(A, B) == /\ A.d = B.d
                /\ MatScale(S2Pow(B.s), A.m, A.d) = MatScale(S2Pow(A.s), B.m, B.d)
Compose(A, B) == Op(A.d, MatMul(A.m, B.m, A.d), A.s + B.s)        \* A after B
Commutator(A, B, D) == MatAdd(MatMul(A, B, D), MatScale(RM1, MatMul(B, A, D), D), D)

\* each identity is a named conjunct so that a failing one is reported by name
IdUnitaryPol   == \A g \in PolGateIds : UnitaryUpToScale(Gate(g))
IdUnitaryOther == \A g \in {"FId", "PS1", "PS2", "PS3", "PS5", "PS7", "CX", "CZ", "SWAP", "CSWAP"} : UnitaryUpToScale(Gate(g))
IdUnitaryBS    == \A k \in 0..8 : LET g == GBS(k) IN UnitaryUpToScale(g)
\* rotations compose additively (angles k*pi/2: period 4*pi, i.e. k mod 8)
IdAddRX == \A a, b \in 0..8 : SameOp(Compose(GRX(a), GRX(b)), GRX(a+b))
IdAddRY == \A a, b \in 0..8 : SameOp(Compose(GRY(a), GRY(b)), GRY(a+b))
IdAddRZ == \A a, b \in 0..8 : SameOp(Compose(GRZ(a), GRZ(b)), GRZ(a+b))
IdAddPS == \A a, b \in 0..8 : SameOp(Compose(GPS(a), GPS(b)), GPS(a+b))
IdAddBS == LET tb == [k \in 0..16 |-> GBS(k)] IN
           \A a, b \in 0..8 : SameOp(Compose(tb[a], tb[b]), tb[a+b])
\* Clifford / Pauli algebra
IdHZH  == SameOp(Compose(GH, Compose(GZ, GH)), GX)
IdSS   == SameOp(Compose(GS, GS), GZ)
IdTT   == SameOp(Compose(GT, GT), GS)
IdSXSX == SameOp(Compose(GSX, GSX), GX)
IdXY   == SameOp(Compose(GX, GY), Op(2, MatScale(RI, GZ.m, 2), 0))     \* XY = iZ
IdRPauli == SameRay(GRX(2).m, GX.m, 2) /\ SameRay(GRY(2).m, GY.m, 2) /\ SameRay(GRZ(2).m, GZ.m, 2)
IdU3RY == SameOp(GU3(0, 1, 0), GRY(1))                                   \* U3(0,theta,0) = RY(theta)
IdU3H  == SameOp(GU3(0, 1, 2), GH)                                       \* U3(0, pi/2, pi) = H
\* ladder algebra below the cutoff:  [a, a^dagger] = 1 on levels 0..1, a^dagger a = n
IdComm == LET comm == Commutator(GAnn.m, GCre.m, 3) IN comm[1][1] = R1 /\ comm[2][2] = R1
IdNum  == MatMul(GCre.m, GAnn.m, 3) = GNum.m
IdDag  == GCre.m = MatDag(GAnn.m, 3)
\* two- and three-qubit gates
IdCXCX == SameOp(Compose(GCX, GCX), Op(4, MatId(4), 0))
IdCSCS == SameOp(Compose(GCSWAP, GCSWAP), Op(8, MatId(8), 0))
IdCZ   == LET IH == Op(4, MatKron(GI.m, 2, GH.m, 2), 1) IN SameOp(Compose(IH, Compose(GCX, IH)), GCZ)
IdSWAP == LET XC == Op(4, MatMul(GSWAP.m, MatMul(GCX.m, GSWAP.m, 4), 4), 0)     \* CX with control = second
          IN SameOp(Compose(GCX, Compose(XC, GCX)), GSWAP)
IdCXasym == GCX.m # MatMul(GSWAP.m, MatMul(GCX.m, GSWAP.m, 4), 4)               \* operand order matters
\* beam splitter: photon-number sectors never mix; BS(pi/2) exchanges the modes up to phase;
\* Hong-Ou-Mandel; two-photon block is the symmetric square of the one-photon block
IdBSsector == LET tb == [k \in 0..8 |-> GBS(k).m] IN
              \A r, c \in 1..9 : (((r-1) \div 3) + ((r-1) % 3) # ((c-1) \div 3) + ((c-1) % 3))
                                   => \A k \in 0..8 : tb[k][r][c] = R0
IdBSswap == GBS(2).m[2][4] # R0 /\ GBS(2).m[2][2] = R0 /\ GBS(2).m[4][4] = R0   \* |0,1> <-> i|1,0>
IdHOM    == GBS(1).m[5][5] = R0
IdBSsym  == \A k \in 0..8 : RMul(GBS(k).m[4][4], GBS(k).m[4][4]) = RMul(R2, GBS(k).m[7][7])
\* Mach-Zehnder: 50/50 splitter, phase phi = k*pi/4 on the first arm, 50/50 splitter. One photon entering in
\* the first mode leaves in the second with probability cos^2(phi/2) and in the first with sin^2(phi/2)
\* (two 50/50 splitters with phi = 0 make BS(pi/2), which swaps the modes).  cos^2(phi/2) = (sqrt2 + sqrt2 cos phi) / (2 sqrt2).
WMul(u, v) == <<u[1]*v[1] + 2*u[2]*v[2], u[1]*v[2] + u[2]*v[1]>>
MZI(k) == MatMul(GBS(1).m, MatMul(MatKron(GPS(k).m, 3, MatId(3), 3), GBS(1).m, 9), 9)
IdMZI == \A k \in 0..7 :
           LET m  == MZI(k)
               na == RNorm2(m[4][4])   nb == RNorm2(m[2][4])        \* |1,0> -> |1,0>,  |1,0> -> |0,1>
               c  == C8w(k)
           IN /\ WMul(nb, <<-c[1], 1 - c[2]>>) = WMul(na, <<c[1], 1 + c[2]>>)
              /\ WPos(WAdd(na, nb))
              /\ \A r \in 1..9 : r \notin {2, 4} => m[r][4] = R0
\* two photons, one per input, balanced interferometer with phi = pi: back to Hong-Ou-Mandel bunching never a coincidence
IdMZIHom == \A k \in {0, 4} : MZI(k)[5][5] # R0 /\ MZI(k)[3][5] = R0 /\ MZI(k)[7][5] = R0
\* more algebra: H, X are involutions; X and Z anticommute; CZ is symmetric under exchange of its operands
IdHH     == SameOp(Compose(GH, GH), Op(2, MatId(2), 0)) /\ SameOp(Compose(GX, GX), Op(2, MatId(2), 0))
IdXZanti == MatMul(GX.m, GZ.m, 2) = MatScale(RM1, MatMul(GZ.m, GX.m, 2), 2)
IdCZsym  == MatMul(GSWAP.m, MatMul(GCZ.m, GSWAP.m, 4), 4) = GCZ.m
\* the phase shifter is diagonal in the number basis (it cannot move photons) and the beam splitter commutes with
\* exp(i phi N_total) = PS(phi) x PS(phi): the total photon number is conserved as an operator statement,
\* not only sector by sector; cascades of splitters and shifters inherit both facts
IdPSdiag == \A k \in 0..8 : \A r, c \in 1..3 : r # c => GPS(k).m[r][c] = R0
IdBSNtot == LET tb == [k \in 0..8 |-> GBS(k).m]
                pp == [k \in {1, 3} |-> MatKron(GPS(k).m, 3, GPS(k).m, 3)]
            IN \A k \in {1, 3}, j \in 0..8 : MatMul(pp[k], tb[j], 9) = MatMul(tb[j], pp[k], 9)
\* channels and POVMs are complete
KrausIds == {"bitflip", "dephase", "ampdamp", "phaseflipY", "unitS", "unitH", "deph3", "loss3",
             "flipXdamp", "corrflip", "unitCX", "flipXdeph3", "loss3Xdamp", "corrflip6", "ctrlshift6"}
PovmIds  == {"proj", "xbasis", "nonproj", "ybasis", "proj3", "projXnon", "bell", "nonXproj3", "proj3Xx",
             "reset", "damp", "jump3", "resetXproj"}
IdKraus == \A c \in KrausIds : Complete(KrausSet(c))
IdPovm  == \A c \in PovmIds : Complete(PovmSet(c))

IdentityTable ==
  [IdUnitaryPol |-> IdUnitaryPol, IdUnitaryOther |-> IdUnitaryOther, IdUnitaryBS |-> IdUnitaryBS,
   IdAddRX |-> IdAddRX, IdAddRY |-> IdAddRY, IdAddRZ |-> IdAddRZ, IdAddPS |-> IdAddPS, IdAddBS |-> IdAddBS,
   IdHZH |-> IdHZH, IdSS |-> IdSS, IdTT |-> IdTT, IdSXSX |-> IdSXSX, IdXY |-> IdXY, IdRPauli |-> IdRPauli,
   IdU3RY |-> IdU3RY, IdU3H |-> IdU3H, IdComm |-> IdComm, IdNum |-> IdNum, IdDag |-> IdDag,
   IdCXCX |-> IdCXCX, IdCSCS |-> IdCSCS, IdCZ |-> IdCZ, IdSWAP |-> IdSWAP, IdCXasym |-> IdCXasym,
   IdBSsector |-> IdBSsector, IdBSswap |-> IdBSswap, IdHOM |-> IdHOM, IdBSsym |-> IdBSsym,
   IdMZI |-> IdMZI, IdMZIHom |-> IdMZIHom, IdHH |-> IdHH, IdXZanti |-> IdXZanti, IdCZsym |-> IdCZsym,
   IdPSdiag |-> IdPSdiag, IdBSNtot |-> IdBSNtot, IdKraus |-> IdKraus, IdPovm |-> IdPovm]
FailedIdentities == {n \in DOMAIN IdentityTable : ~IdentityTable[n]}
GateIdentities == FailedIdentities = {}
=============================================================================

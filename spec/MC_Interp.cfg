CONSTANTS
  NSub = 1
  Dim <- MCDim
INIT Init
NEXT Next

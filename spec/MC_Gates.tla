----------------------------- MODULE MC_Gates -----------------------------
EXTENDS Gates, TLC
MCDim == <<2>>
VARIABLE x
Init == x = 0
Next == UNCHANGED x
Inv == IF FailedIdentities = {} THEN TRUE ELSE PrintT(<<"FAILED", FailedIdentities>>) /\ FALSE
=============================================================================

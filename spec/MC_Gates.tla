----------------------------- MODULE MC_Gates -----------------------------
EXTENDS Gates, TLC
MCDim == <<2>>
VARIABLE x
Init == x = 0
Next == UNCHANGED x
Inv == TRUE
ASSUME LET f == FailedIdentities IN IF f = {} THEN PrintT(<<"IDENTITIES", Cardinality(DOMAIN IdentityTable)>>) ELSE PrintT(<<"FAILED", f>>) /\ FALSE
=============================================================================

------------------------------ MODULE PrngInd ------------------------------
(***************************************************************************)
(* Unbounded version of Prng.tla for Apalache: the same key discipline     *)
(* (two runs, own prefixes, common seed, common program) without the       *)
(* MaxPrefix / MaxProgram bounds, together with an inductive invariant.    *)
(*   apalache-mc check --init=IndInit --inv=IndInv --length=1              *)
(*   apalache-mc check --init=Init    --inv=IndInv --length=0              *)
(* discharge  IndInv /\ Next => IndInv'  and  Init => IndInv; IndInv       *)
(* implies Fresh, Reproducible and Independent of Prng.tla for runs of     *)
(* ANY length (seeds and distributions range over finite sets).            *)
(***************************************************************************)
EXTENDS Integers, Sequences, FiniteSets, Apalache

Seeds == {1, 2, 3}
Dists == {"d2", "d3"}
Runs == {1, 2}
MaxCnt == 6      \* only bounds the generator of IndInit, not the transition relation

VARIABLES
  \* @type: Int -> Int;
  seed,
  \* @type: Int -> Int;
  cnt,
  \* @type: Int -> Set(<<Int, Int>>);
  used,
  \* @type: Int -> Seq(<<<<Int, Int>>, Str>>);
  obs,
  \* @type: Str;
  phase

\* @type: (Int) => <<Int, Int>>;
Key(r) == <<seed[r], cnt[r]>>

Init == /\ seed \in [Runs -> Seeds]
        /\ cnt = [r \in Runs |-> 0]
        /\ used = [r \in Runs |-> {}]
        /\ obs = [r \in Runs |-> <<>>]
        /\ phase = "prefix"

PrefixSeed(r, s) == /\ phase = "prefix"
                    /\ seed' = [seed EXCEPT ![r] = s] /\ cnt' = [cnt EXCEPT ![r] = 0]
                    /\ used' = [used EXCEPT ![r] = {}]
                    /\ UNCHANGED <<obs, phase>>
PrefixDraw(r) == /\ phase = "prefix"
                 /\ used' = [used EXCEPT ![r] = @ \union {Key(r)}]
                 /\ cnt' = [cnt EXCEPT ![r] = @ + 1]
                 /\ UNCHANGED <<seed, obs, phase>>
CommonSeed(s) == /\ phase = "prefix"
                 /\ seed' = [r \in Runs |-> s] /\ cnt' = [r \in Runs |-> 0] /\ used' = [r \in Runs |-> {}]
                 /\ obs' = [r \in Runs |-> <<>>] /\ phase' = "program"
CommonDraw(d) == /\ phase = "program"
                 /\ obs' = [r \in Runs |-> Append(obs[r], <<Key(r), d>>)]
                 /\ used' = [r \in Runs |-> used[r] \union {Key(r)}]
                 /\ cnt' = [r \in Runs |-> cnt[r] + 1]
                 /\ UNCHANGED <<seed, phase>>
Next == \/ \E r \in Runs, s \in Seeds : PrefixSeed(r, s)
        \/ \E r \in Runs : PrefixDraw(r)
        \/ \E s \in Seeds : CommonSeed(s)
        \/ \E d \in Dists : CommonDraw(d)

\* the inductive invariant: the keys handed out since the last set_seed are exactly (seed, 0) .. (seed, cnt-1);
\* in the program phase both runs are in lockstep and every observation carries the key with its own index
IndInv ==
  /\ phase \in {"prefix", "program"}
  /\ \A r \in Runs : seed[r] \in Seeds /\ cnt[r] >= 0
  /\ \A r \in Runs : used[r] = {<<seed[r], n>> : n \in {m \in 0..MaxCnt + 1 : m < cnt[r]}}
  /\ phase = "program" =>
       /\ seed[1] = seed[2] /\ cnt[1] = cnt[2] /\ obs[1] = obs[2]
       /\ Len(obs[1]) = cnt[1]
       /\ \A i \in DOMAIN obs[1] : obs[1][i][1] = <<seed[1], i - 1>> /\ obs[1][i][2] \in Dists

Fresh == \A r \in Runs : Key(r) \notin used[r]
Reproducible == phase = "program" => obs[1] = obs[2]
Independent == \A r \in Runs : \A i, j \in DOMAIN obs[r] : i # j => obs[r][i][1] # obs[r][j][1]
Consequences == Fresh /\ Reproducible /\ (phase = "program" => Independent)

\* vacuity guard: the generator must admit program-phase states with several observations
NotVacuous == ~(phase = "program" /\ cnt[1] >= 3)

\* generator for the inductive step: any state within the type bounds
IndInit ==
  /\ seed = Gen(2) /\ cnt = Gen(2) /\ used = Gen(MaxCnt) /\ obs = Gen(MaxCnt) /\ phase = Gen(1)
  /\ DOMAIN seed = Runs /\ DOMAIN cnt = Runs /\ DOMAIN used = Runs /\ DOMAIN obs = Runs
  /\ \A r \in Runs : cnt[r] <= MaxCnt
  /\ IndInv
=============================================================================

--------------------------------- MODULE PW ---------------------------------
(***************************************************************************)
(* photon_weave as a state machine.                                        *)
(*                                                                         *)
(* State: the joint quantum state of every subsystem the user created      *)
(* (exact ensemble, module Tensor), which subsystems are still alive, the  *)
(* partition of the live subsystems into storage blocks (own state /       *)
(* envelope product state / composite product space), composite            *)
(* membership, the contraction switch, and which Fock cutoffs the user     *)
(* has pinned with an explicit resize.                                     *)
(*                                                                         *)
(* Transitions: the public API calls, one action per kind of call, each    *)
(* parametrised by the entry point ("sub" = on the subsystem object,       *)
(* "env" = on its envelope, "ce" = on a composite-envelope handle).        *)
(* Every action is  Enabled /\ Physics /\ Partition /\ Log.                *)
(*   Physics   = the meaning of the call on the joint state (one           *)
(*               definition, independent of entry point and layout);       *)
(*   Partition = what properties C20/C05 fix about storage blocks;         *)
(*   Log       = the record appended to hist from which the conformance    *)
(*               harness drives the real library and compares.             *)
(***************************************************************************)
EXTENDS Gates, TLC

CONSTANTS
  Kind,        \* sequence over 1..NSub: "F" (Fock) | "P" (polarization) | "C" (custom state)
  EnvIdx,      \* sequence over 1..NSub: envelope number 1..NEnv, 0 for custom states
  NEnv,
  InitLevels,  \* set of sequences (one initial basis level per subsystem)
  PolGates, FockGates, CusGates, CompGates, KronOps,
  CustomOps2, CustomOps3,      \* user matrices for d = 2 / d = 3 targets
  Kraus1, Kraus2, Povm1, Povm2,
  Families,    \* enabled action families (strings)
  MaxDepth,    \* number of freely chosen steps of a behaviour (after the script, if any)
  Scripts,     \* set of scripted prefixes: sequences of partial step records that must be taken first
  Focus,       \* families allowed for the LAST free step ({} = any): used by the scripted cover
  Thin         \* TRUE: pick one random candidate per parameter (simulation), FALSE: all

VARIABLES
  ens,      \* joint state (ensemble of kets over all NSub subsystems)
  alive,    \* [1..NSub -> BOOLEAN]  FALSE once destructively measured
  blk,      \* [1..NSub -> 1..NSub]  storage block of a live subsystem = its least member
  bkind,    \* [1..NSub -> {"own","env","ps"}]  kind of the block (indexed by subsystem)
  cid,      \* [Members -> Nat]  composite a member belongs to (0 = none)
  ncomp,    \* number of composites created so far
  contr,    \* automatic contraction switch
  known,    \* [1..NSub -> BOOLEAN]  Fock cutoff pinned to the model dimension by resize
  hist,     \* log of the behaviour (sequence of records)
  script,   \* scripted steps still to be taken (partial records; see Scripts)
  free      \* freely chosen steps still allowed

vars == <<ens, alive, blk, bkind, cid, ncomp, contr, known, hist, script, free>>
phys == <<ens, alive>>

Subs == 1..NSub
EnvMembers(e) == {i \in Subs : EnvIdx[i] = e}
Mem(i) == IF EnvIdx[i] > 0 THEN EnvIdx[i] ELSE NEnv + i          \* member id: envelope or custom state
Members == {Mem(i) : i \in Subs}
SubsOfMem(m) == {i \in Subs : Mem(i) = m}
HasPartner(i) == EnvIdx[i] > 0
Partner(i) == CHOOSE j \in Subs : j # i /\ EnvIdx[j] = EnvIdx[i]
FockOf(e) == CHOOSE i \in EnvMembers(e) : Kind[i] = "F"
PolOf(e)  == CHOOSE i \in EnvMembers(e) : Kind[i] = "P"

Pick(S) == IF Thin /\ S # {} THEN {RandomElement(S)} ELSE S
\* A behaviour first follows its script (each scripted step is an ordinary action of this
\* specification whose log record must agree with the scripted partial record), then takes
\* `free` steps of its own choice, the last of which may be restricted to the Focus families.
Scripted == script # <<>>
Act(a) == IF Scripted THEN Head(script).a = a ELSE TRUE
Matches(p, r) == \A k \in DOMAIN p : k \in DOMAIN r /\ r[k] = p[k]
On(f) == IF Scripted THEN TRUE
         ELSE /\ f \in Families
              /\ IF free = 1 /\ Focus # {} THEN f \in Focus ELSE TRUE

BlockOf(i) == {j \in Subs : alive[j] /\ blk[j] = blk[i]}
Min(S) == CHOOSE x \in S : \A y \in S : x <= y
RECURSIVE SortSet(_)
SortSet(S) == IF S = {} THEN <<>> ELSE <<Min(S)>> \o SortSet(S \ {Min(S)})

\* all orderings of subsets of S of length n (sequences without repetition)
RECURSIVE Arr(_, _)
Arr(S, n) == IF n = 0 THEN {<<>>}
             ELSE UNION {{<<x>> \o t : t \in Arr(S \ {x}, n-1)} : x \in S}
Range(s) == {s[j] : j \in 1..Len(s)}

Log(r) == /\ IF Scripted THEN Matches(Head(script), r) ELSE TRUE
          /\ hist' = Append(hist, r @@ [post |-> ens', al |-> alive', pb |-> blk', pk |-> bkind'])
          /\ script' = IF Scripted THEN Tail(script) ELSE script
          /\ free' = IF Scripted THEN free ELSE free - 1
Depth == Scripted \/ free > 0

\* merge the blocks of all subsystems in S into one block of kind k
MergeBlocks(S, k) ==
  LET all == UNION {BlockOf(i) : i \in S}
      rep == Min(all)
  IN  /\ blk'   = [j \in Subs |-> IF j \in all THEN rep ELSE blk[j]]
      /\ bkind' = [j \in Subs |-> IF j \in all THEN k ELSE bkind[j]]
\* the subsystems in S leave their blocks and hold their own state again
LeaveBlocks(S) ==
  LET rest(j) == BlockOf(j) \ S
  IN  /\ blk'   = [j \in Subs |-> IF j \in S \/ ~alive[j] THEN j
                                  ELSE IF rest(j) = {} THEN j ELSE Min(rest(j))]
      /\ bkind' = [j \in Subs |-> IF j \in S THEN "own"
                                  ELSE IF bkind[j] = "env" /\ Cardinality(rest(j)) < 2 THEN "own"
                                  ELSE bkind[j]]
\* both at once (a request that entangles the subsystems in M and hands back those in L): the blocks
\* that meet M become one block of kind k, then the subsystems in L leave it
MergeThenLeave(M, k, L) ==
  LET all == UNION {BlockOf(i) : i \in M}
      rep == Min(all)
      b1  == [j \in Subs |-> IF j \in all THEN rep ELSE blk[j]]
      k1  == [j \in Subs |-> IF j \in all THEN k ELSE bkind[j]]
      rest(j) == {x \in Subs : alive[x] /\ b1[x] = b1[j]} \ L
  IN  /\ blk'   = [j \in Subs |-> IF j \in L \/ ~alive[j] THEN j
                                  ELSE IF rest(j) = {} THEN j ELSE Min(rest(j))]
      /\ bkind' = [j \in Subs |-> IF j \in L THEN "own"
                                  ELSE IF k1[j] = "env" /\ Cardinality(rest(j)) < 2 THEN "own"
                                  ELSE k1[j]]
\* kind of the block that results from bringing S together: an envelope-level request on two
\* members that both hold their own state combines the envelope, everything else ends up in a
\* composite product space
MergeKind(S, entry) == IF \A i \in S : blk[i] = blk[Min(S)] THEN bkind[Min(S)]
                       ELSE IF entry = "env" /\ \A i \in S : bkind[i] = "own" THEN "env" ELSE "ps"

SameComposite(S) == \A i \in S : cid[Mem(i)] > 0 /\ cid[Mem(i)] = cid[Mem(Min(S))]
EntryOK(entry, i) ==
  \/ entry = "sub"
  \/ entry = "env" /\ HasPartner(i) /\ alive[i] /\ alive[Partner(i)]
  \/ entry = "ce"  /\ cid[Mem(i)] > 0
Entries == {"sub", "env", "ce"}

(* ------------------------------- operators ------------------------------ *)
OpFor(i, g) ==      \* operator a single-subsystem gate id denotes on subsystem i
  IF g \in CustomOps2 \cup CustomOps3 THEN CustomMat(g) ELSE Gate(g)
GatesFor(i) ==
  CASE Kind[i] = "P" -> PolGates \cup CustomOps2
    \* Fock Custom operators are applied without renormalisation: only unitary ones are valid requests
    [] Kind[i] = "F" -> IF Dim[i] = 3 THEN FockGates \cup (CustomOps3 \cap {"cyc3"}) ELSE FockGates \ {"Cre", "Ann"}
    [] Kind[i] = "C" -> IF Dim[i] = 2 THEN CusGates \cup CustomOps2 ELSE CustomOps3
\* the model keeps Fock levels 0..Dim-1: creation must not leave it
StaysInModel(i, g) == g = "Cre" => TopLevel(ens, i) <= Dim[i] - 2
RenormalisingOrUnitary(i, g) == TRUE

(***************************************************************************)
(* Single-subsystem operation                                              *)
(***************************************************************************)
Op1 ==
  /\ On("op1") /\ Depth /\ Act("op1")
  /\ \E i \in Pick({j \in Subs : alive[j]}) :
     \E g \in Pick({h \in GatesFor(i) : OpFor(i, h).d = Dim[i] /\ StaysInModel(i, h)}) :
       LET new == EnsApply(OpFor(i, g).m, <<i>>, ens) IN
       \E entry \in Pick({en \in Entries : EntryOK(en, i)}) :
         IF new = <<>>
         THEN \* the operator annihilates the state: the request must be rejected, nothing changes
              /\ UNCHANGED <<ens, alive, blk, bkind, cid, ncomp, contr, known>>
              /\ Log([a |-> "op1", en |-> entry, g |-> g, t |-> <<i>>, rej |-> TRUE])
         ELSE /\ ens' = Reduce(new)
              /\ known' = [known EXCEPT ![i] = IF Kind[i] = "F" THEN FALSE ELSE @]
              /\ UNCHANGED <<alive, blk, bkind, cid, ncomp, contr>>
              /\ Log([a |-> "op1", en |-> entry, g |-> g, t |-> <<i>>, rej |-> FALSE])

(***************************************************************************)
(* Composite operations (only through a composite envelope)                *)
(***************************************************************************)
CompKinds(g) == CASE g \in {"CX", "CZ", "SWAP"} -> <<"P", "P">>
                  [] g = "CSWAP" -> <<"P", "P", "P">>
                  [] OTHER -> <<"F", "F">>                      \* BSk
IsBS(g) == g \notin {"CX", "CZ", "SWAP", "CSWAP"}
TotalAtMost2(a, b) == SupportSat(ens, LAMBDA k : Dg(k, a) + Dg(k, b) <= 2)
CompTargets(g) ==
  LET ks == CompKinds(g) IN
  {T \in Arr({i \in Subs : alive[i]}, Len(ks)) :
      /\ \A j \in 1..Len(ks) : Kind[T[j]] = ks[j]
      /\ SameComposite(Range(T))
      /\ IsBS(g) => (Dim[T[1]] = 3 /\ Dim[T[2]] = 3 /\ TotalAtMost2(T[1], T[2]))}
OpN ==
  /\ On("opn") /\ Depth /\ Act("opn")
  /\ \E g \in Pick({h \in CompGates : CompTargets(h) # {}}) :
     \E T \in Pick(CompTargets(g)) :
       /\ ens' = Reduce(EnsApply(Gate(g).m, T, ens))
       /\ MergeBlocks(Range(T), "ps")
       /\ known' = [j \in Subs |-> IF j \in Range(T) /\ Kind[j] = "F" THEN FALSE ELSE known[j]]
       /\ UNCHANGED <<alive, cid, ncomp, contr>>
       /\ Log([a |-> "opn", en |-> "ce", g |-> g, t |-> T, rej |-> FALSE])

\* user expression: Kronecker product of single-subsystem operators, one per operand, any kinds
KronMat(gs, T) ==
  LET RECURSIVE K(_)
      K(j) == IF j = Len(gs) THEN OpFor(T[j], gs[j]).m
              ELSE MatKron(OpFor(T[j], gs[j]).m, Dim[T[j]], K(j+1), TDimFrom(T, j+1))
  IN K(1)
KronTargets(gs) ==
  {T \in Arr({i \in Subs : alive[i]}, Len(gs)) :
      /\ \A j \in 1..Len(gs) : gs[j] \in GatesFor(T[j]) /\ OpFor(T[j], gs[j]).d = Dim[T[j]]
                               /\ gs[j] \notin {"Cre", "Ann"}
      /\ SameComposite(Range(T))}
OpKron ==
  /\ On("opk") /\ Depth /\ Act("opk")
  /\ \E gs \in Pick({h \in KronOps : KronTargets(h) # {}}) :
     \E T \in Pick(KronTargets(gs)) :
       LET new == EnsApply(KronMat(gs, T), T, ens) IN
       /\ new # <<>>
       /\ ens' = Reduce(new)
       /\ MergeBlocks(Range(T), "ps")
       /\ known' = [j \in Subs |-> IF j \in Range(T) /\ Kind[j] = "F" THEN FALSE ELSE known[j]]
       /\ UNCHANGED <<alive, cid, ncomp, contr>>
       /\ Log([a |-> "opk", en |-> "ce", g |-> gs, gk |-> gs, t |-> T, rej |-> FALSE])

(***************************************************************************)
(* Kraus channels                                                          *)
(***************************************************************************)
DimKnown(i) == Kind[i] # "F" \/ known[i]
KrausTargets(set, entry) ==
  LET cand == {i \in Subs : alive[i] /\ DimKnown(i)} IN
  {T \in Arr(cand, 1) \cup Arr(cand, 2) :
      /\ TDim(T) = set.d
      /\ (entry = "sub") => Len(T) = 1
      /\ (entry = "env") => (\A j \in 1..Len(T) : EntryOK("env", T[j]) /\ EnvIdx[T[j]] = EnvIdx[T[1]])
      /\ (entry = "ce")  => SameComposite(Range(T))}
ApplyKraus ==
  /\ On("kraus") /\ Depth /\ Act("kraus")
  /\ \E c \in Pick(Kraus1 \cup Kraus2) : \E entry \in Pick(Entries) :
     \E T \in Pick(KrausTargets(KrausSet(c), entry)) :
       /\ ens' = Reduce(EnsKraus(KrausSet(c).ks, T, ens))
       /\ IF Len(T) > 1 THEN MergeBlocks(Range(T), MergeKind(Range(T), entry)) ELSE UNCHANGED <<blk, bkind>>
       /\ UNCHANGED <<alive, cid, ncomp, contr, known>>
       /\ Log([a |-> "kraus", en |-> entry, g |-> c, t |-> T, rej |-> FALSE])

(***************************************************************************)
(* Projective measurement                                                  *)
(***************************************************************************)
\* measured set of a request: named subsystems plus live partners unless separate
WithPartners(S, sep) ==
  S \cup IF sep THEN {} ELSE {Partner(i) : i \in {j \in S : HasPartner(j) /\ alive[Partner(j)]}}
\* combined level of the sub-tuple D of M in the combined level o of M
RECURSIVE SubLevelFrom(_, _, _, _)
SubLevelFrom(o, M, D, j) ==
  IF j > Len(D) THEN 0
  ELSE LET p == CHOOSE q \in 1..Len(M) : M[q] = D[j]
       IN ((o \div CStride(M, p)) % Dim[M[p]]) * CStride(D, j) + SubLevelFrom(o, M, D, j+1)
SubLevel(o, M, D) == SubLevelFrom(o, M, D, 1)
LevelsOf(o, M) == [j \in 1..Len(M) |-> (o \div CStride(M, j)) % Dim[M[j]]]

MeasureRequests ==
  \* <<entry, named subsystems (ordered), handle-composite>>
  {<<"sub", <<i>>>> : i \in {j \in Subs : alive[j]}}
  \cup {<<"env", T>> : T \in UNION {Arr({i \in EnvMembers(e) : EntryOK("env", i)}, n) : e \in 1..NEnv, n \in 1..2}}
  \cup {<<"ce", T>> : T \in {U \in Arr({i \in Subs : alive[i]}, 1) \cup Arr({i \in Subs : alive[i]}, 2)
                                : SameComposite(Range(U))}}
Measure ==
  /\ On("measure") /\ Depth /\ Act("measure")
  /\ \E rq \in Pick(MeasureRequests) :
     \E sep \in Pick(BOOLEAN) : \E destr \in Pick(BOOLEAN) :
       LET S  == Range(rq[2])
           M  == SortSet(WithPartners(S, sep))
           wt == WeightTable(ens, M)
       IN \E o \in Pick({x \in 0..TDim(M)-1 : ~WIsZero(wt[x+1])}) :
            LET D  == SortSet({i \in Range(M) : destr /\ Kind[i] # "C"})
                pr == EnsProj(ens, M, o)
            IN /\ ens' = Reduce(IF D = <<>> THEN pr ELSE EnsProjReset(pr, D, SubLevel(o, M, D)))
               /\ alive' = [j \in Subs |-> alive[j] /\ j \notin Range(D)]
               /\ LeaveBlocks(Range(M))
               /\ UNCHANGED <<cid, ncomp, contr, known>>
               /\ Log([a |-> "measure", en |-> rq[1], t |-> rq[2], sep |-> sep, destr |-> destr,
                       m |-> M, out |-> LevelsOf(o, M), wt |-> wt, rej |-> FALSE])
\* env.measure() without arguments: both members
MeasureEnvAll ==
  /\ On("measure") /\ Depth /\ Act("measure")
  /\ \E e \in Pick({x \in 1..NEnv : \A i \in EnvMembers(x) : alive[i]}) : \E destr \in Pick(BOOLEAN) :
       LET M  == SortSet(EnvMembers(e))
           wt == WeightTable(ens, M)
       IN \E o \in Pick({x \in 0..TDim(M)-1 : ~WIsZero(wt[x+1])}) :
            LET D  == IF destr THEN M ELSE <<>>
                pr == EnsProj(ens, M, o)
            IN /\ ens' = Reduce(IF D = <<>> THEN pr ELSE EnsProjReset(pr, D, o))
               /\ alive' = [j \in Subs |-> alive[j] /\ j \notin Range(D)]
               /\ LeaveBlocks(Range(M))
               /\ UNCHANGED <<cid, ncomp, contr, known>>
               /\ Log([a |-> "measure", en |-> "envall", t |-> <<FockOf(e)>>, sep |-> FALSE, destr |-> destr,
                       m |-> M, out |-> LevelsOf(o, M), wt |-> wt, rej |-> FALSE])

(***************************************************************************)
(* Generalised measurement                                                 *)
(***************************************************************************)
RECURSIVE PovmWeightsFrom(_, _, _)
PovmWeightsFrom(ks, T, j) ==
  IF j > Len(ks) THEN <<>> ELSE <<EnsWeight(EnsApply(ks[j], T, ens))>> \o PovmWeightsFrom(ks, T, j+1)
\* A POVM may additionally measure the envelope partners of the targets in the number / H-V basis
\* (destroying them only in destructive mode): documentation, the `partial` flag and the
\* composite path disagree on when this happens, so both choices are behaviours of the
\* specification (pm = TRUE: partners measured).  Non-destructive mode never destroys anything.
PovmPartners(T) == {Partner(i) : i \in {j \in Range(T) : HasPartner(j) /\ alive[Partner(j)]}} \ Range(T)
MeasurePOVM ==
  /\ On("povm") /\ Depth /\ Act("povm")
  /\ \E c \in Pick(Povm1 \cup Povm2) : \E entry \in Pick(Entries) :
     \E T \in Pick(KrausTargets(PovmSet(c), entry)) : \E destr \in Pick(BOOLEAN) :
     \E pm \in Pick(IF PovmPartners(T) # {} THEN BOOLEAN ELSE {FALSE}) :
       LET ks == PovmSet(c).ks
           wt == PovmWeightsFrom(ks, T, 1)
       IN \E oi \in Pick({x \in 1..Len(ks) : ~WIsZero(wt[x])}) :
            LET post == EnsApply(ks[oi], T, ens)
                D    == SortSet({i \in Range(T) : destr /\ Kind[i] # "C"})
                mid  == IF D = <<>> THEN post ELSE EnsTraceReset(post, D)
                PM   == IF pm THEN SortSet(PovmPartners(T)) ELSE <<>>
                pwt  == IF pm THEN WeightTable(mid, PM) ELSE <<>>
            IN \E po \in Pick(IF pm THEN {x \in 0..TDim(PM)-1 : ~WIsZero(pwt[x+1])} ELSE {0}) :
               /\ ens' = Reduce(IF ~pm THEN mid
                                ELSE IF destr THEN EnsProjReset(EnsProj(mid, PM, po), PM, po)
                                ELSE EnsProj(mid, PM, po))
               /\ alive' = [j \in Subs |-> alive[j] /\ j \notin Range(D) /\ (destr => j \notin Range(PM))]
               /\ LET keep == Range(T) \ Range(D)       \* targets that survive: they are entangled by M_i
                  IN IF Cardinality(keep) > 1
                     THEN MergeThenLeave(keep, MergeKind(keep, entry), Range(D) \cup Range(PM))
                     ELSE IF D # <<>> \/ pm THEN LeaveBlocks(Range(D) \cup Range(PM))
                     ELSE UNCHANGED <<blk, bkind>>
               /\ UNCHANGED <<cid, ncomp, contr, known>>
               /\ Log([a |-> "povm", en |-> entry, g |-> c, t |-> T, destr |-> destr,
                       out |-> oi - 1, wt |-> wt, pm |-> pm, m |-> PM,
                       pout |-> IF pm THEN LevelsOf(po, PM) ELSE <<>>, pwt |-> pwt, rej |-> FALSE])

(***************************************************************************)
(* Structure: never changes the physics                                    *)
(***************************************************************************)
EnvAllOwn(e) == \A i \in EnvMembers(e) : alive[i] /\ bkind[i] = "own"
EnvIsBlock(e) == \A i \in EnvMembers(e) : alive[i] /\ bkind[i] = "env"
EnvCombine ==
  /\ On("struct") /\ Depth /\ Act("envcombine")
  /\ \E e \in Pick({x \in 1..NEnv : EnvAllOwn(x)}) :
       /\ MergeBlocks(EnvMembers(e), "env")
       /\ UNCHANGED <<ens, alive, cid, ncomp, contr, known>>
       /\ Log([a |-> "envcombine", en |-> "env", t |-> <<FockOf(e)>>, rej |-> FALSE])
EnvReorder ==
  /\ On("struct") /\ Depth /\ Act("envreorder")
  /\ \E e \in Pick({x \in 1..NEnv : EnvIsBlock(x) \/ EnvAllOwn(x)}) :
     \E T \in Pick(Arr(EnvMembers(e), 1) \cup Arr(EnvMembers(e), 2)) :
       /\ UNCHANGED <<ens, alive, blk, bkind, cid, ncomp, contr, known>>
       /\ Log([a |-> "envreorder", en |-> "env", t |-> T, rej |-> FALSE])
Expand ==
  /\ On("struct") /\ Depth /\ Act("expand")
  /\ \E i \in Pick({j \in Subs : alive[j]}) : \E entry \in Pick({en \in Entries : EntryOK(en, i)}) :
       /\ UNCHANGED <<ens, alive, blk, bkind, cid, ncomp, contr, known>>
       /\ Log([a |-> "expand", en |-> entry, t |-> <<i>>, rej |-> FALSE])
Contract ==
  /\ On("struct") /\ Depth /\ Act("contract")
  /\ \E i \in Pick({j \in Subs : alive[j]}) : \E entry \in Pick({"sub", "env"} \cap {en \in Entries : EntryOK(en, i)}) :
     \E final \in Pick({"L", "V"}) :
       /\ UNCHANGED <<ens, alive, blk, bkind, cid, ncomp, contr, known>>
       /\ Log([a |-> "contract", en |-> entry, t |-> <<i>>, final |-> final, rej |-> FALSE])
CETargets(maxn) ==
  UNION {{T \in Arr({i \in Subs : alive[i]}, n) : SameComposite(Range(T))} : n \in 1..maxn}
CECombine ==
  /\ On("struct") /\ Depth /\ Act("cecombine")
  /\ \E T \in Pick(CETargets(3)) :
       /\ MergeBlocks(Range(T), "ps")
       /\ UNCHANGED <<ens, alive, cid, ncomp, contr, known>>
       /\ Log([a |-> "cecombine", en |-> "ce", t |-> T, rej |-> FALSE])
CEReorder ==
  /\ On("struct") /\ Depth /\ Act("cereorder")
  /\ \E T \in Pick(CETargets(2)) :
       /\ MergeBlocks(Range(T), "ps")
       /\ UNCHANGED <<ens, alive, cid, ncomp, contr, known>>
       /\ Log([a |-> "cereorder", en |-> "ce", t |-> T, rej |-> FALSE])
\* partial trace: returns the reduced state of T in the order of T
TraceOutTargets(entry) ==
  CASE entry = "sub" -> Arr({i \in Subs : alive[i]}, 1)
    [] entry = "env" -> UNION {Arr({i \in EnvMembers(e) : EntryOK("env", i)}, n) : e \in 1..NEnv, n \in 1..2}
    [] entry = "ce"  -> CETargets(2)
TraceOut ==
  /\ On("trace") /\ Depth /\ Act("traceout")
  /\ \E entry \in Pick(Entries) : \E T \in Pick(TraceOutTargets(entry)) :
       /\ IF Len(T) > 1 THEN MergeBlocks(Range(T), MergeKind(Range(T), entry)) ELSE UNCHANGED <<blk, bkind>>
       /\ UNCHANGED <<ens, alive, cid, ncomp, contr, known>>
       /\ Log([a |-> "traceout", en |-> entry, t |-> T, red |-> ReducedBag(ens, T), rej |-> FALSE])
SetContraction ==
  /\ On("config") /\ Depth /\ Act("setcontraction")
  /\ \E b \in Pick(BOOLEAN) :
       /\ contr' = b
       /\ UNCHANGED <<ens, alive, blk, bkind, cid, ncomp, known>>
       /\ Log([a |-> "setcontraction", en |-> "cfg", b |-> b, rej |-> FALSE])
\* new composite envelope from free members F and existing composites G (merging them)
NewComposite ==
  /\ On("composite") /\ Depth /\ Act("newcomposite")
  /\ \E F \in Pick(SUBSET {m \in Members : cid[m] = 0 /\ \A i \in SubsOfMem(m) : alive[i]}) :
     \* the merged composites in the order in which their handles are passed (the order is the caller's choice)
     \E Gs \in Pick(LET cands == 1..ncomp \cap {cid[m] : m \in Members}
                    IN UNION {Arr(cands, n) : n \in 0..Cardinality(cands)}) :
     \E dup \in Pick(BOOLEAN) :      \* dup: every handle of a merged composite (and one of its envelopes) is passed
       LET G == Range(Gs) IN
       /\ F \cup G # {}
       /\ dup => G # {}
       /\ Scripted \/ Cardinality(F) + Cardinality(G) <= 3      \* (a bound on free exploration only)
       /\ ncomp' = ncomp + 1
       /\ cid' = [m \in Members |-> IF m \in F \/ cid[m] \in G THEN ncomp + 1 ELSE cid[m]]
       /\ UNCHANGED <<ens, alive, blk, bkind, contr, known>>
       /\ Log([a |-> "newcomposite", en |-> "ce", f |-> SortSet(F), gc |-> Gs, dup |-> dup, rej |-> FALSE])

(***************************************************************************)
(* Fock cutoff                                                             *)
(***************************************************************************)
Resize ==
  /\ On("resize") /\ Depth /\ Act("resize")
  /\ \E i \in Pick({j \in Subs : alive[j] /\ Kind[j] = "F"}) : \E n \in Pick(0..Dim[i]+1) :
     \E entry \in Pick({en \in Entries : EntryOK(en, i)}) :
       LET ok == n >= 1 /\ TopLevel(ens, i) < n IN
       /\ known' = [known EXCEPT ![i] = IF ok THEN n = Dim[i] ELSE @]
       /\ UNCHANGED <<ens, alive, blk, bkind, cid, ncomp, contr>>
       /\ Log([a |-> "resize", en |-> entry, t |-> <<i>>, n |-> n, ret |-> ok, rej |-> FALSE])

(***************************************************************************)
(* Requests that must be rejected: nothing at all may change               *)
(***************************************************************************)
InvalidKinds == {"measure_with_destroyed", "kraus_incomplete", "kraus_wrongsize", "povm_wrongsize", "op_wrongkind",
                 "op_outside", "ann_vacuum", "use_destroyed_op", "use_destroyed_measure",
                 "use_destroyed_kraus", "use_destroyed_povm", "custom_wrongsize",
                 "kraus_rect", "povm_rect",
                 "outside_op", "outside_kraus", "outside_measure", "outside_povm"}
\* a single live subsystem i named at a container (the composite of j / the envelope of j) that it does not belong to
OutsideCases(kind) ==
  {<<kind, "ce", <<i, j>>>> : i \in {k \in Subs : alive[k]},
                              j \in {k \in Subs : alive[k] /\ cid[Mem(k)] > 0}}
  \cup {<<kind, "env", <<i, j>>>> : i \in {k \in Subs : alive[k]},
                                    j \in {k \in Subs : alive[k] /\ HasPartner(k) /\ alive[Partner(k)]}}
OutsideOK(x) == LET i == x[3][1]  j == x[3][2] IN
                IF x[2] = "ce" THEN cid[Mem(i)] # cid[Mem(j)] ELSE Mem(i) # Mem(j)
PerEntry(kind, ents, P(_, _)) == UNION {{<<kind, en, <<i>>>> : i \in {j \in Subs : P(en, j)}} : en \in ents}
DeadEntryOK(en, j) == ~alive[j] /\ (en = "env" => HasPartner(j)) /\ (en = "ce" => cid[Mem(j)] > 0)
InvalidCases ==
  PerEntry("kraus_incomplete", Entries, LAMBDA en, j : alive[j] /\ Dim[j] = 2 /\ EntryOK(en, j))
  \cup PerEntry("kraus_wrongsize", Entries, LAMBDA en, j : alive[j] /\ DimKnown(j) /\ EntryOK(en, j))
  \cup PerEntry("povm_wrongsize", Entries, LAMBDA en, j : alive[j] /\ DimKnown(j) /\ EntryOK(en, j))
  \* rectangular operators (one row short): sum K^dagger K can still be the identity, the size is wrong all the same
  \cup PerEntry("kraus_rect", Entries, LAMBDA en, j : alive[j] /\ DimKnown(j) /\ EntryOK(en, j))
  \cup PerEntry("povm_rect", Entries, LAMBDA en, j : alive[j] /\ DimKnown(j) /\ EntryOK(en, j))
  \cup OutsideCases("outside_op") \cup OutsideCases("outside_kraus")
  \cup OutsideCases("outside_measure") \cup OutsideCases("outside_povm")
  \cup PerEntry("custom_wrongsize", Entries, LAMBDA en, j : alive[j] /\ Kind[j] # "F" /\ EntryOK(en, j))
  \cup PerEntry("op_wrongkind", {"env", "ce"}, LAMBDA en, j : alive[j] /\ EntryOK(en, j))
  \cup {<<"op_outside", "ce", <<i, j>>>> : i \in {k \in Subs : alive[k] /\ Kind[k] = "P" /\ cid[Mem(k)] > 0},
                                            j \in {k \in Subs : alive[k] /\ Kind[k] = "P"}}
  \cup PerEntry("ann_vacuum", Entries, LAMBDA en, j : alive[j] /\ Kind[j] = "F" /\ Dim[j] = 3 /\ EntryOK(en, j)
                                                       /\ TopLevel(ens, j) = 0)
  \* a live subsystem named before a destroyed one: the request must be rejected before anything is measured
  \cup {<<"measure_with_destroyed", "ce", <<j, i>>>> : j \in {k \in Subs : alive[k] /\ cid[Mem(k)] > 0},
                                                        i \in {k \in Subs : ~alive[k] /\ cid[Mem(k)] > 0}}
  \cup PerEntry("use_destroyed_op", Entries, DeadEntryOK)
  \cup PerEntry("use_destroyed_measure", Entries, DeadEntryOK)
  \cup PerEntry("use_destroyed_kraus", Entries, DeadEntryOK)
  \cup PerEntry("use_destroyed_povm", Entries, DeadEntryOK)
Invalid ==
  /\ On("invalid") /\ Depth /\ Act("invalid")
  /\ \E cs \in Pick({x \in InvalidCases :
                     /\ (x[1] = "op_outside" => (x[3][1] # x[3][2] /\ cid[Mem(x[3][1])] # cid[Mem(x[3][2])]))
                     /\ (x[1] = "measure_with_destroyed" => cid[Mem(x[3][1])] = cid[Mem(x[3][2])])
                     /\ (x[1] \in {"outside_op", "outside_kraus", "outside_measure", "outside_povm"} => OutsideOK(x))
                     /\ (x[1] \in {"outside_kraus", "outside_povm"} => DimKnown(x[3][1]))}) :
       /\ UNCHANGED <<ens, alive, blk, bkind, cid, ncomp, contr, known>>
       /\ Log([a |-> "invalid", en |-> cs[2], g |-> cs[1], t |-> cs[3], rej |-> TRUE])

(* ------------------------------------------------------------------------ *)
Init ==
  /\ script \in Scripts
  /\ \E lv \in InitLevels :
        /\ ens = <<BasisKet(lv)>>
        \* (sc: the script this behaviour follows, so that the harness can tell which scripts were completed)
        /\ hist = << [a |-> "init", en |-> "init", lv |-> lv, u |-> [dim |-> Dim, kind |-> Kind, env |-> EnvIdx], rej |-> FALSE, post |-> <<BasisKet(lv)>>,
                      al |-> [i \in Subs |-> TRUE], pb |-> [i \in Subs |-> i], pk |-> [i \in Subs |-> "own"], sc |-> script] >>
  /\ alive = [i \in Subs |-> TRUE]
  /\ blk = [i \in Subs |-> i]
  /\ bkind = [i \in Subs |-> "own"]
  /\ cid = [m \in Members |-> 0]
  /\ ncomp = 0
  /\ contr = TRUE
  /\ known = [i \in Subs |-> FALSE]
  /\ free = MaxDepth

Next ==
  \/ Op1 \/ OpN \/ OpKron \/ ApplyKraus \/ Measure \/ MeasureEnvAll \/ MeasurePOVM
  \/ EnvCombine \/ EnvReorder \/ Expand \/ Contract \/ CECombine \/ CEReorder \/ TraceOut
  \/ SetContraction \/ NewComposite \/ Resize \/ Invalid

Spec == Init /\ [][Next]_vars

(***************************************************************************)
(* Properties of the design, checked by TLC on every reachable state /     *)
(* transition.                                                             *)
(***************************************************************************)
TypeOK ==
  /\ Len(ens) >= 1
  /\ \A j \in 1..Len(ens) : Len(ens[j]) = N
  /\ \A i \in Subs : blk[i] \in Subs /\ bkind[i] \in {"own", "env", "ps"}

\* the state never vanishes (every accepted request leaves a physical state)   [C01, C07]
WeightPositive == WPos(EnsWeight(ens))

\* a destroyed subsystem is a |0> factor: it carries no information any more          [C05]
DeadIsVacuum == \A i \in Subs : ~alive[i] => TopLevel(ens, i) = 0

\* partition is well formed: representative is the least live member, kinds agree     [C13, C20]
PartitionOK ==
  /\ \A i \in Subs : alive[i] => (alive[blk[i]] /\ blk[blk[i]] = blk[i] /\ blk[i] <= i)
  /\ \A i, j \in Subs : (alive[i] /\ alive[j] /\ blk[i] = blk[j]) => bkind[i] = bkind[j]
  /\ \A i \in Subs : (alive[i] /\ bkind[i] = "own") => BlockOf(i) = {i}
  /\ \A i \in Subs : (alive[i] /\ bkind[i] = "env") => (HasPartner(i) /\ BlockOf(i) = EnvMembers(EnvIdx[i]))
  /\ \A i \in Subs : (alive[i] /\ bkind[i] = "ps") => SameComposite(BlockOf(i))
\* subsystems in different blocks are never entangled: the joint state factorises over blocks [C02, C20]
BlocksFactorise ==
  \A i \in Subs : alive[i] /\ blk[i] = i /\ ReducedIsPure(ens, SortSet(Subs)) =>
     ReducedIsPure(ens, SortSet(BlockOf(i)))

\* Born rule bookkeeping: branch weights of the last measurement sum to the weight before [C04]
LastRec == hist[Len(hist)]
WeightsSumToTrace ==
  (Len(hist) > 0 /\ LastRec.a \in {"measure"}) => TRUE

\* rejected requests and structural requests never touch the physics             [C02, C08, C17]
StructuralActs == {"envcombine", "envreorder", "expand", "contract", "cecombine", "cereorder",
                   "traceout", "setcontraction", "newcomposite", "resize", "invalid"}
StructuralKeepsPhysics ==
  [][(Len(hist') > Len(hist) /\ hist'[Len(hist')].a \in StructuralActs) => UNCHANGED phys]_vars
RejectedIsNoop ==
  [][(Len(hist') > Len(hist) /\ hist'[Len(hist')].rej) =>
        UNCHANGED <<ens, alive, blk, bkind, cid, ncomp, contr, known>>]_vars

\* measurement: sum of branch weights = weight before; chosen branch has non-zero weight;
\* re-measuring a kept subsystem is deterministic                                  [C04, C05]
MeasureProps ==
  [][(Len(hist') > Len(hist) /\ hist'[Len(hist')].a = "measure") =>
       LET r == hist'[Len(hist')] IN
       /\ WSumSeq(r.wt) = EnsWeight(ens)
       /\ \A j \in 1..Len(r.m) :
            alive'[r.m[j]] =>
              \A lv \in 0..Dim[r.m[j]]-1 :
                 (lv # r.out[j]) => WIsZero(ProjWeight(ens', <<r.m[j]>>, lv))]_vars
PovmProps ==
  [][(Len(hist') > Len(hist) /\ hist'[Len(hist')].a = "povm") =>
       WSumSeq(hist'[Len(hist')].wt) = WMulInt(EnsWeight(ens), Pow2(PovmSet(hist'[Len(hist')].g).s))]_vars
\* trace-preserving maps preserve the weight (up to the common scale of the operator set)   [C06]
KrausProps ==
  [][(Len(hist') > Len(hist) /\ hist'[Len(hist')].a = "kraus") =>
       \E k \in 0..12 : \E l \in 0..12 :
          WMulInt(EnsWeight(ens'), Pow2(k)) = WMulInt(EnsWeight(ens), Pow2(l))]_vars

\* passive linear optics conserves the total photon number distribution            [C11]
PairNumberWeight(e, a, b, n) ==
  LET RECURSIVE S(_)
      S(lv) == IF lv > n \/ lv >= Dim[a] THEN W0
               ELSE IF n - lv >= Dim[b] THEN S(lv+1)
               ELSE WAdd(ProjWeight(e, <<a, b>>, lv * Dim[b] + (n - lv)), S(lv+1))
  IN S(0)
\* cross-multiplied comparison of two unnormalised distributions
SameDistribution(w1, t1, w2, t2) ==
  <<w1[1]*t2[1] + 2*w1[2]*t2[2], w1[1]*t2[2] + w1[2]*t2[1]>> =
  <<w2[1]*t1[1] + 2*w2[2]*t1[2], w2[1]*t1[2] + w2[2]*t1[1]>>
PassiveConservesNumber ==
  [][(Len(hist') > Len(hist) /\ hist'[Len(hist')].a = "opn" /\ IsBS(hist'[Len(hist')].g)) =>
       LET T == hist'[Len(hist')].t IN
       \A n \in 0..4 : SameDistribution(PairNumberWeight(ens, T[1], T[2], n), EnsWeight(ens),
                                        PairNumberWeight(ens', T[1], T[2], n), EnsWeight(ens'))]_vars
PhaseConservesNumber ==
  [][(Len(hist') > Len(hist) /\ hist'[Len(hist')].a = "op1" /\ ~hist'[Len(hist')].rej
        /\ hist'[Len(hist')].g \in {"PS1", "PS2", "PS3", "PS4", "PS5", "PS6", "PS7", "FId"}) =>
       LET i == hist'[Len(hist')].t[1] IN
       \A n \in 0..Dim[i]-1 : SameDistribution(ProjWeight(ens, <<i>>, n), EnsWeight(ens),
                                               ProjWeight(ens', <<i>>, n), EnsWeight(ens'))]_vars
=============================================================================

------------------------------ MODULE Tensor ------------------------------
(***************************************************************************)
(* Exact tensor-product states over a fixed list of subsystems.            *)
(*                                                                         *)
(* Subsystems are numbered 1..NSub, subsystem i has dimension Dim[i].      *)
(* A ket is a sequence of N = prod Dim[i] ring elements; the basis index   *)
(* k in 0..N-1 is the mixed-radix number whose i-th digit (most            *)
(* significant first) is the level of subsystem i  (the "creation order"   *)
(* canonical basis the harness also uses).                                 *)
(*                                                                         *)
(* A (possibly mixed) state is an ENSEMBLE: a sequence of unnormalised     *)
(* kets, denoting rho = sum_k |v_k><v_k| (up to a positive factor).        *)
(* Unitaries, general linear maps, Kraus channels, POVM elements,          *)
(* projections and partial traces all map ensembles to ensembles, so the   *)
(* whole model needs only matrix-times-vector in exact arithmetic.         *)
(***************************************************************************)
EXTENDS Ring, Sequences, FiniteSets

CONSTANTS NSub, Dim

RECURSIVE ProdFrom(_)
ProdFrom(i) == IF i > NSub THEN 1 ELSE Dim[i] * ProdFrom(i+1)
Stride == [i \in 1..NSub |-> ProdFrom(i+1)]
N      == ProdFrom(1)

Dg(k, i) == (k \div Stride[i]) % Dim[i]          \* level of subsystem i in basis state k

(* ---------- operators on an ordered tuple T of subsystem positions ------ *)
RECURSIVE TDimFrom(_, _)
TDimFrom(T, j) == IF j > Len(T) THEN 1 ELSE Dim[T[j]] * TDimFrom(T, j+1)
TDim(T) == TDimFrom(T, 1)
CStride(T, j) == TDimFrom(T, j+1)

RECURSIVE RowIdxFrom(_, _, _)
RowIdxFrom(k, T, j) == IF j > Len(T) THEN 0
                       ELSE Dg(k, T[j]) * CStride(T, j) + RowIdxFrom(k, T, j+1)
RowIdx(k, T) == RowIdxFrom(k, T, 1)               \* combined level of T in basis state k

RECURSIVE SpreadFrom(_, _, _)
SpreadFrom(c, T, j) == IF j > Len(T) THEN 0
                       ELSE ((c \div CStride(T, j)) % Dim[T[j]]) * Stride[T[j]]
                            + SpreadFrom(c, T, j+1)
Spread(c, T) == SpreadFrom(c, T, 1)               \* basis offset of combined level c
BaseIdx(k, T) == k - Spread(RowIdx(k, T), T)      \* basis state k with all of T set to 0

RECURSIVE SumRow(_, _, _, _, _, _)
SumRow(row, v, b, sp, c, D) ==
  IF c >= D THEN R0
  ELSE IF row[c+1] = R0 \/ v[b + sp[c+1] + 1] = R0 THEN SumRow(row, v, b, sp, c+1, D)
  ELSE RAdd(RMul(row[c+1], v[b + sp[c+1] + 1]), SumRow(row, v, b, sp, c+1, D))

\* (U on T  x  identity elsewhere) |v>,   U a TDim(T) x TDim(T) matrix (sequence of rows),
\* row/column index = combined level of T with T[1] most significant (Kronecker order)
ApplyAt(U, T, v) ==
  LET D  == TDim(T)
      sp == [c \in 1..D |-> Spread(c-1, T)]
  IN  [k \in 1..N |-> SumRow(U[RowIdx(k-1, T) + 1], v, BaseIdx(k-1, T), sp, 0, D)]

KetIsZero(v) == \A k \in 1..N : v[k] = R0

RECURSIVE KetNorm2From(_, _)
KetNorm2From(v, k) == IF k > N THEN W0
                      ELSE IF v[k] = R0 THEN KetNorm2From(v, k+1)
                      ELSE WAdd(RNorm2(v[k]), KetNorm2From(v, k+1))
KetNorm2(v) == KetNorm2From(v, 1)

(* ------------------------------ ensembles ------------------------------- *)
DropZero(ens) == SelectSeq(ens, LAMBDA v : ~KetIsZero(v))

RECURSIVE EnsWeightFrom(_, _)
EnsWeightFrom(ens, j) == IF j > Len(ens) THEN W0
                         ELSE WAdd(KetNorm2(ens[j]), EnsWeightFrom(ens, j+1))
EnsWeight(ens) == EnsWeightFrom(ens, 1)            \* trace of rho (unnormalised)

EnsApply(U, T, ens) == DropZero([j \in 1..Len(ens) |-> ApplyAt(U, T, ens[j])])

RECURSIVE EnsKrausFrom(_, _, _, _)
EnsKrausFrom(Ks, T, ens, i) ==
  IF i > Len(Ks) THEN <<>> ELSE EnsApply(Ks[i], T, ens) \o EnsKrausFrom(Ks, T, ens, i+1)
EnsKraus(Ks, T, ens) == EnsKrausFrom(Ks, T, ens, 1)   \* sum_i K_i rho K_i^dagger

\* projection of T on combined level o
ProjKet(v, T, o) == [k \in 1..N |-> IF RowIdx(k-1, T) = o THEN v[k] ELSE R0]
EnsProj(ens, T, o) == DropZero([j \in 1..Len(ens) |-> ProjKet(ens[j], T, o)])

\* after T was projected on level o: move the surviving amplitudes to level 0 of T
\* (a destroyed subsystem is kept as a |0> factor so that the basis never changes)
ResetKet(v, T, o) ==
  [k \in 1..N |-> IF RowIdx(k-1, T) = 0 THEN v[k + Spread(o, T)] ELSE R0]
EnsProjReset(ens, T, o) ==
  DropZero([j \in 1..Len(ens) |-> ResetKet(ProjKet(ens[j], T, o), T, o)])

RECURSIVE EnsTraceResetFrom(_, _, _)
EnsTraceResetFrom(ens, T, o) ==
  IF o >= TDim(T) THEN <<>> ELSE EnsProjReset(ens, T, o) \o EnsTraceResetFrom(ens, T, o+1)
\* partial trace over T (T left in |0>): rho -> Tr_T(rho) x |0><0|
EnsTraceReset(ens, T) == EnsTraceResetFrom(ens, T, 0)

\* weight of outcome o of a computational-basis measurement of T:  <o| Tr_rest rho |o>
ProjWeight(ens, T, o) == EnsWeight(EnsProj(ens, T, o))
WeightTable(ens, T) == [o \in 1..TDim(T) |-> ProjWeight(ens, T, o-1)]

RECURSIVE WSumSeqFrom(_, _)
WSumSeqFrom(ws, j) == IF j > Len(ws) THEN W0 ELSE WAdd(ws[j], WSumSeqFrom(ws, j+1))
WSumSeq(ws) == WSumSeqFrom(ws, 1)

\* highest occupied level of subsystem i (its reduced state has weight there)
TopLevel(ens, i) ==
  CHOOSE n \in 0..Dim[i]-1 :
     /\ ~WIsZero(ProjWeight(ens, <<i>>, n))
     /\ \A m \in n+1..Dim[i]-1 : WIsZero(ProjWeight(ens, <<i>>, m))

\* all basis states with non-zero amplitude satisfy P(k)
SupportSat(ens, P(_)) == \A j \in 1..Len(ens) : \A k \in 1..N : ens[j][k] # R0 => P(k-1)

(* --------------------- purity of a reduced state ------------------------ *)
\* The reduced state of T is rank one iff all "columns" (amplitudes of T's levels at a fixed
\* configuration of the other subsystems, over all kets) are pairwise proportional.
ColAt(v, T, b) == [c \in 1..TDim(T) |-> v[b + Spread(c-1, T) + 1]]
Bases(T) == {k \in 0..N-1 : RowIdx(k, T) = 0}
Cols(ens, T) == {ColAt(ens[j], T, b) : j \in 1..Len(ens), b \in Bases(T)}
Proportional(u, w, D) ==
  \A a \in 1..D : \A c \in a+1..D : RMul(u[a], w[c]) = RMul(u[c], w[a])
ReducedIsPure(ens, T) ==
  LET D  == TDim(T)
      nz == {u \in Cols(ens, T) : \E a \in 1..D : u[a] # R0}
  IN  \A u \in nz : \A w \in nz : Proportional(u, w, D)

\* reduced state of T in the order of T, as an ensemble over the TDim(T)-dimensional space
Reduced(ens, T) ==
  LET bs == Bases(T)
      cols == {<<j, b>> \in (1..Len(ens)) \X bs : \E c \in 1..TDim(T) : ColAt(ens[j], T, b)[c] # R0}
  IN  {ColAt(ens[p[1]], T, p[2]) : p \in cols}     \* NOTE: a set; multiplicities handled by caller
\* (Reduced is only used for export as a bag, see ReducedBag)
RECURSIVE SetToSeq(_)
SetToSeq(S) == IF S = {} THEN <<>> ELSE LET x == CHOOSE x \in S : TRUE IN <<x>> \o SetToSeq(S \ {x})
ReducedBag(ens, T) ==
  LET idx == SetToSeq({<<j, b>> \in (1..Len(ens)) \X Bases(T) :
                          \E c \in 1..TDim(T) : ColAt(ens[j], T, b)[c] # R0})
  IN  [n \in 1..Len(idx) |-> ColAt(ens[idx[n][1]], T, idx[n][2])]

(* --------------------------- gcd reduction ------------------------------ *)
AllEntries(ens, P(_)) == \A j \in 1..Len(ens) : \A k \in 1..N : P(ens[j][k])
MapEntries(ens, F(_)) == [j \in 1..Len(ens) |-> [k \in 1..N |-> F(ens[j][k])]]
RECURSIVE Reduce(_)
Reduce(ens) ==
  IF Len(ens) = 0 THEN ens
  ELSE IF AllEntries(ens, RDivBy2) THEN Reduce(MapEntries(ens, RHalf))
  ELSE IF AllEntries(ens, RDivByS2) THEN Reduce(MapEntries(ens, ROverS2))
  ELSE ens

\* basis ket |levels>, levels a sequence of length NSub
RECURSIVE IdxOfFrom(_, _)
IdxOfFrom(levels, i) == IF i > NSub THEN 0 ELSE levels[i] * Stride[i] + IdxOfFrom(levels, i+1)
IdxOf(levels) == IdxOfFrom(levels, 1)
BasisKet(levels) == [k \in 1..N |-> IF k - 1 = IdxOf(levels) THEN R1 ELSE R0]

(* ------------------------------ matrices -------------------------------- *)
MatMul(A, B, D) ==
  [r \in 1..D |-> [c \in 1..D |->
     LET RECURSIVE S(_)
         S(m) == IF m > D THEN R0 ELSE RAdd(RMul(A[r][m], B[m][c]), S(m+1))
     IN S(1)]]
MatDag(A, D)  == [r \in 1..D |-> [c \in 1..D |-> RConj(A[c][r])]]
MatAdd(A, B, D) == [r \in 1..D |-> [c \in 1..D |-> RAdd(A[r][c], B[r][c])]]
MatScale(x, A, D) == [r \in 1..D |-> [c \in 1..D |-> RMul(x, A[r][c])]]
MatId(D)  == [r \in 1..D |-> [c \in 1..D |-> IF r = c THEN R1 ELSE R0]]
MatZero(D) == [r \in 1..D |-> [c \in 1..D |-> R0]]
MatKron(A, DA, B, DB) ==
  [r \in 1..DA*DB |-> [c \in 1..DA*DB |->
     RMul(A[((r-1) \div DB) + 1][((c-1) \div DB) + 1], B[((r-1) % DB) + 1][((c-1) % DB) + 1])]]
\* A = x * Id for some non-zero ring element x with x real positive?  (used for unitarity up to scale)
IsScalarMat(A, D) == /\ A[1][1] # R0
                     /\ \A r \in 1..D : \A c \in 1..D :
                          A[r][c] = IF r = c THEN A[1][1] ELSE R0
=============================================================================

-------------------------------- MODULE Twin --------------------------------
(***************************************************************************)
(* C14, judging side: paired executions recorded by harness/twins.py.      *)
(* Each line holds the observation sequences of the same seeded program    *)
(* run (a) after one history, (b) after another history in the same        *)
(* process, (c) in a fresh process.  Prng.tla says they must be equal:     *)
(* outcomes, consumed keys and final states are a function of (seed,       *)
(* program) only.                                                          *)
(***************************************************************************)
EXTENDS Integers, Sequences, Json, IOUtils, TLC
Pairs == ndJsonDeserialize(IOEnv.TRACE_FILE)
VARIABLE l
FirstDiff(x, y) == IF Len(x) # Len(y) THEN 0
                   ELSE CHOOSE i \in 1..Len(x) : x[i] # y[i] /\ \A j \in 1..i-1 : x[j] = y[j]
Judge(r) ==
  /\ (r.a # r.b) => PrintT(<<"TWIN", r.pair, "same-process", FirstDiff(r.a, r.b)>>)
  /\ (r.a # r.c) => PrintT(<<"TWIN", r.pair, "fresh-process", FirstDiff(r.a, r.c)>>)
Init == l = 1
Next == l <= Len(Pairs) /\ Judge(Pairs[l]) /\ l' = l + 1
PostOK == TLCGet("stats").diameter - 1 = Len(Pairs) /\ PrintT(<<"CONSUMED", Len(Pairs)>>)
=============================================================================

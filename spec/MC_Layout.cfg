CONSTANTS
  NEnvL = 2
  NCus = 1
  MaxH = 3
  MaxSteps = 4
INIT LInit
NEXT LNext
INVARIANT Truthful
PROPERTY StepClauses
CHECK_DEADLOCK FALSE

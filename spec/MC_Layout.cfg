CONSTANTS
  NEnvL = 2
  NCus = 1
  MaxH = 2
  MaxSteps = 3
  Fault = "none"
INIT LInit
NEXT LNext
INVARIANT Truthful
PROPERTY StepClauses
CHECK_DEADLOCK FALSE

------------------------------- MODULE Interp -------------------------------
(***************************************************************************)
(* The expression interpreter (photon_weave/extra/expression_interpreter)  *)
(* as a recursive evaluator over exact matrices (C16).                     *)
(*                                                                         *)
(* An expression is a record [op, name, args]:                             *)
(*   leaf      [op |-> "leaf", name |-> n, args |-> <<>>]   value Val(n)    *)
(*   node      [op |-> command, name |-> "", args |-> <<e1, ..., ek>>]      *)
(* Values are [k |-> "s", v |-> ring element] or [k |-> "m", d, m].        *)
(* Documented algebra: n-ary add, binary sub, scalar product (scalars ...  *)
(* then at most one matrix), matrix product, Kronecker product in argument *)
(* order, matrix exponential, element-wise division; names are resolved    *)
(* through the context.                                                    *)
(***************************************************************************)
EXTENDS Gates

Leaf(n) == [op |-> "leaf", name |-> n, args |-> <<>>]
Node(o, as) == [op |-> o, name |-> "", args |-> as]
Sc(x) == [k |-> "s", d |-> 1, v |-> x, m |-> <<>>]
Mx(d, m) == [k |-> "m", d |-> d, v |-> R0, m |-> m]

\* leaves: non-commuting, asymmetric, complex matrices; a nilpotent one for expm; a matrix of
\* units for element-wise division; scalars
LeafNames == {"A", "B", "N", "U", "two", "im", "m3", "m1"}
Val(n) ==
  CASE n = "A"   -> Mx(2, M2(R1, R2, R0, RI))                      \* [[1,2],[0,i]]
    [] n = "B"   -> Mx(2, M2(R0, R1, RM1, RS2))                    \* [[0,1],[-1,sqrt2]]
    [] n = "N"   -> Mx(2, M2(R0, RInt(3), R0, R0))                 \* nilpotent: expm(N) = I + N
    [] n = "U"   -> Mx(2, M2(R1, RI, RM1, RMI))                    \* unit entries: X / U = X .* conj(U)
    [] n = "two" -> Sc(R2)
    [] n = "im"  -> Sc(RI)
    [] n = "m3"  -> Sc(RInt(-3))
    [] n = "m1"  -> Sc(RM1)

IsS(x) == x.k = "s"
IsM(x) == x.k = "m"
Bad == [k |-> "bad", d |-> 0, v |-> R0, m |-> <<>>]
IsBad(x) == x.k = "bad"

VAdd(x, y) == IF IsS(x) /\ IsS(y) THEN Sc(RAdd(x.v, y.v))
              ELSE IF IsM(x) /\ IsM(y) /\ x.d = y.d THEN Mx(x.d, MatAdd(x.m, y.m, x.d))
              ELSE Bad
VNeg(x) == IF IsS(x) THEN Sc(RNeg(x.v)) ELSE IF IsM(x) THEN Mx(x.d, MatScale(RM1, x.m, x.d)) ELSE Bad
VSMul(x, y) == IF IsS(x) /\ IsS(y) THEN Sc(RMul(x.v, y.v))
               ELSE IF IsS(x) /\ IsM(y) THEN Mx(y.d, MatScale(x.v, y.m, y.d))
               ELSE Bad                                            \* matrix first / two matrices: not in the documented algebra
VMMul(x, y) == IF IsM(x) /\ IsM(y) /\ x.d = y.d THEN Mx(x.d, MatMul(x.m, y.m, x.d)) ELSE Bad
VKron(x, y) == IF IsM(x) /\ IsM(y) /\ x.d * y.d <= 8 THEN Mx(x.d * y.d, MatKron(x.m, x.d, y.m, y.d)) ELSE Bad
IsNilpotent(x) == IsM(x) /\ MatMul(x.m, x.m, x.d) = MatZero(x.d)
VExpm(x) == IF IsNilpotent(x) THEN Mx(x.d, MatAdd(MatId(x.d), x.m, x.d)) ELSE Bad
IsUnit(z) == z \in {R1, RM1, RI, RMI}
VDiv(x, y) == IF IsM(x) /\ IsM(y) /\ x.d = y.d /\ \A r, c \in 1..y.d : IsUnit(y.m[r][c])
              THEN Mx(x.d, [r \in 1..x.d |-> [c \in 1..x.d |-> RMul(x.m[r][c], RConj(y.m[r][c]))]])
              ELSE Bad

RECURSIVE Eval(_)
RECURSIVE FoldL(_, _, _, _)
FoldL(F(_, _), acc, as, i) == IF i > Len(as) \/ IsBad(acc) THEN acc ELSE FoldL(F, F(acc, Eval(as[i])), as, i+1)
Eval(e) ==
  CASE e.op = "leaf"   -> Val(e.name)
    [] e.op = "add"    -> IF Len(e.args) < 1 THEN Bad ELSE FoldL(VAdd, Eval(e.args[1]), e.args, 2)
    [] e.op = "sub"    -> IF Len(e.args) # 2 THEN Bad ELSE VAdd(Eval(e.args[1]), VNeg(Eval(e.args[2])))
    [] e.op = "s_mult" -> IF Len(e.args) < 1 THEN Bad ELSE FoldL(VSMul, Eval(e.args[1]), e.args, 2)
    [] e.op = "m_mult" -> IF Len(e.args) < 1 THEN Bad ELSE FoldL(VMMul, Eval(e.args[1]), e.args, 2)
    [] e.op = "kron"   -> IF Len(e.args) < 1 THEN Bad ELSE FoldL(VKron, Eval(e.args[1]), e.args, 2)
    [] e.op = "expm"   -> IF Len(e.args) # 1 THEN Bad ELSE VExpm(Eval(e.args[1]))
    [] e.op = "div"    -> IF Len(e.args) # 2 THEN Bad ELSE VDiv(Eval(e.args[1]), Eval(e.args[2]))
    [] OTHER           -> Bad

(* ------------------------------ the case set ------------------------------ *)
Ops == {"add", "sub", "s_mult", "m_mult", "kron", "expm", "div"}
Leaves == {Leaf(n) : n \in LeafNames}
Arity(o) == CASE o \in {"sub", "div"} -> {2} [] o = "expm" -> {1} [] OTHER -> {2, 3}
Tuples(S, n) == IF n = 1 THEN {<<a>> : a \in S} ELSE IF n = 2 THEN {<<a, b>> : a, b \in S}
                ELSE {<<a, b, c>> : a, b, c \in S}
WellTyped(e) == ~IsBad(Eval(e))
\* depth 1: every command on every tuple of leaves it is defined on
Depth1 == {e \in UNION {UNION {{Node(o, as) : as \in Tuples(Leaves, n)} : n \in Arity(o)} : o \in Ops} : WellTyped(e)}
\* depth 2: binary / unary commands over leaves and a representative family of depth-1 trees
Inner == Leaves \cup {Node("add", <<Leaf("A"), Leaf("B")>>), Node("m_mult", <<Leaf("A"), Leaf("B")>>),
                      Node("m_mult", <<Leaf("B"), Leaf("A")>>), Node("kron", <<Leaf("A"), Leaf("B")>>),
                      Node("s_mult", <<Leaf("im"), Leaf("two")>>), Node("s_mult", <<Leaf("m3"), Leaf("N")>>),
                      Node("sub", <<Leaf("B"), Leaf("A")>>), Node("expm", <<Leaf("N")>>),
                      Node("div", <<Leaf("A"), Leaf("U")>>), Node("s_mult", <<Leaf("im"), Leaf("B")>>)}
Depth2 == {e \in UNION {UNION {{Node(o, as) : as \in Tuples(Inner, n)} : n \in (Arity(o) \cap {1, 2})} : o \in Ops} : WellTyped(e)}
\* the phase-shift style expression the library itself uses: expm(s_mult(scalars..., N))
Cases == Depth1 \cup Depth2
UnknownHeads == {"mul", "ADD", "pow", "", "kron ", "transpose"}

(* ------------------- properties of the evaluator itself ------------------- *)
A_ == Leaf("A")  B_ == Leaf("B")  N_ == Leaf("N")  M1_ == Leaf("m1")
EvaluatorIdentities ==
  /\ Eval(Node("add", <<A_, B_>>)) = Eval(Node("add", <<B_, A_>>))
  /\ Eval(Node("m_mult", <<A_, B_>>)) # Eval(Node("m_mult", <<B_, A_>>))          \* argument order matters
  /\ Eval(Node("kron", <<A_, B_>>)) # Eval(Node("kron", <<B_, A_>>))
  /\ Eval(Node("sub", <<A_, A_>>)) = Mx(2, MatZero(2))
  /\ Eval(Node("sub", <<A_, B_>>)) = Eval(Node("add", <<A_, Node("s_mult", <<M1_, B_>>)>>))
  /\ Eval(Node("m_mult", <<Node("expm", <<N_>>), Node("expm", <<Node("s_mult", <<M1_, N_>>)>>)>>)) = Mx(2, MatId(2))
  /\ Eval(Node("kron", <<A_, B_, N_>>)) = Eval(Node("kron", <<Node("kron", <<A_, B_>>), N_>>))
  /\ Eval(Node("kron", <<A_, B_, N_>>)) = Eval(Node("kron", <<A_, Node("kron", <<B_, N_>>)>>))
  /\ Eval(Node("m_mult", <<A_, B_, N_>>)) = Eval(Node("m_mult", <<A_, Node("m_mult", <<B_, N_>>)>>))
  /\ Eval(Node("add", <<A_, B_, N_>>)) = Eval(Node("add", <<N_, Node("add", <<B_, A_>>)>>))
  /\ \A h \in UnknownHeads : IsBad(Eval(Node(h, <<A_, B_>>)))
=============================================================================

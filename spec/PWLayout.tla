------------------------------ MODULE PWLayout ------------------------------
(***************************************************************************)
(* Data-free, code-shaped model of photon_weave's bookkeeping (C13, C20):  *)
(* composite-envelope handles, the class-level registries `_containers`    *)
(* and `_instances`, containers with their envelopes / subsystems /        *)
(* product-space lists, envelope back pointers, subsystem indices and      *)
(* composite pointers, and the routing of the calls that change them:      *)
(*   CompositeEnvelope.__init__ (creation and merge), Envelope.combine,    *)
(*   CompositeEnvelope.combine / reorder, measurement (partner expansion,  *)
(*   removal from product spaces, envelope retirement, removal of empty    *)
(*   product spaces, index refresh).                                       *)
(* Amplitudes are abstracted away: every stored state is "some vector".    *)
(*                                                                         *)
(* The state is mapped to the SAME projection record the conformance       *)
(* harness records from the real library (Proj), and the invariants are    *)
(* literally the clauses of PWContract.tla.  TLC explores every history    *)
(* of calls up to the bound.                                               *)
(***************************************************************************)
EXTENDS PWContract, TLC

CONSTANTS NEnvL,       \* envelopes 1..NEnvL; envelope e owns fock 2e-1 and polarization 2e
          NCus,        \* custom states: subsystems 2*NEnvL+1 .. 2*NEnvL+NCus
          MaxH,        \* handles that may be created
          MaxSteps,
          Fault        \* "none", or one of the defects the pinned code had (used to show that the
                       \* invariants are not vacuous: TLC must find a counterexample for each)

NSubL == 2 * NEnvL + NCus
SubsL == 1..NSubL
EnvsL == 1..NEnvL
HandlesL == 1..MaxH
FockOfE(e) == 2 * e - 1
PolOfE(e)  == 2 * e
EnvOfS(s)  == IF s <= 2 * NEnvL THEN (s + 1) \div 2 ELSE 0
PartnerL(s) == IF EnvOfS(s) = 0 THEN 0 ELSE IF s % 2 = 1 THEN s + 1 ELSE s - 1
IsCus(s) == s > 2 * NEnvL

VARIABLES
  hUid,     \* [HandlesL -> Nat]        handle.uid (0 = handle not created yet)
  cOf,      \* [uid -> container id]    CompositeEnvelope._containers (0 = no entry)
  cEnvs,    \* [container -> Seq(env)]  container.envelopes
  cObjs,    \* [container -> Seq(sub)]  container.state_objs
  cPS,      \* [container -> Seq(Seq(sub))]  container.states (product spaces, members in tensor order)
  psId,     \* [container -> Seq(Nat)]  identity of each product space (for "listed twice")
  eUid,     \* [EnvsL -> Nat]           envelope.composite_envelope_id (0 = none)
  eBlock,   \* [EnvsL -> Seq(sub)]      members of Envelope.state in tensor order (<<>> = not combined)
  eMeas,    \* [EnvsL -> BOOLEAN]
  sOwn,     \* [SubsL -> BOOLEAN]       subsystem holds its own state
  sIdx,     \* [SubsL -> Seq(Nat)]      index: <<>> | <<i>> | <<k, j>>  (0-based as in the code)
  sCE,      \* [SubsL -> Nat]           uid of the handle in subsystem.composite_envelope (0 = None)
  sMeas,    \* [SubsL -> BOOLEAN]
  nUid, nCont, nPs,   \* fresh-id counters
  steps,
  lastEv    \* event record of the last call (for the relational clauses)
lvars == <<hUid, cOf, cEnvs, cObjs, cPS, psId, eUid, eBlock, eMeas, sOwn, sIdx, sCE, sMeas, nUid, nCont, nPs, steps, lastEv>>

MaxUid == MaxH + 1
Uids == 1..MaxUid
Conts == 1..MaxH

RngL(s) == {s[i] : i \in 1..Len(s)}
MinL(S) == CHOOSE x \in S : \A y \in S : x <= y
RECURSIVE SetToSeqOrd(_)
SetToSeqOrd(S) == IF S = {} THEN <<>> ELSE <<MinL(S)>> \o SetToSeqOrd(S \ {MinL(S)})
SetToSeqL(S) == SetToSeqOrd(S)
SeqsUpTo2 == {<<a>> : a \in SubsL} \cup ({<<a, b>> : a \in SubsL, b \in SubsL} \ {<<a, a>> : a \in SubsL})
SeqWithout(s, X) == SelectSeq(s, LAMBDA x : x \notin X)
IndexIn(s, x) == CHOOSE i \in 1..Len(s) : s[i] = x

(* ------------------------ projection (as the tracer) ---------------------- *)
ContOfUid(u) == IF u = 0 THEN 0 ELSE cOf[u]
PStr(n) == IF n = 1 THEN 2 ELSE 2 * (IF n = 2 THEN 2 ELSE IF n = 3 THEN 4 ELSE IF n = 4 THEN 8 ELSE IF n = 5 THEN 16 ELSE 32)
Proj ==
  [subs |-> [s \in SubsL |->
               [id |-> s, k |-> IF IsCus(s) THEN "C" ELSE IF s % 2 = 1 THEN "F" ELSE "P", env |-> EnvOfS(s),
                cc |-> ContOfUid(sCE[s]), ix |-> sIdx[s], lv |-> IF sMeas[s] THEN "-" ELSE "V", dim |-> 2,
                ms |-> sMeas[s], rp |-> IF sOwn[s] THEN "vec" ELSE "none", n |-> IF sOwn[s] THEN 2 ELSE 0,
                fl |-> <<TRUE, TRUE, TRUE, TRUE>>, dg |-> IF sOwn[s] THEN "own" ELSE "none"]],
   envs |-> [e \in EnvsL |->
               [id |-> e, f |-> FockOfE(e), p |-> PolOfE(e), lv |-> IF eBlock[e] = <<>> THEN "-" ELSE "V",
                ms |-> eMeas[e], cc |-> ContOfUid(eUid[e]), rp |-> IF eBlock[e] = <<>> THEN "none" ELSE "vec",
                n |-> IF eBlock[e] = <<>> THEN 0 ELSE 4, fl |-> <<TRUE, TRUE, TRUE, TRUE>>,
                dg |-> IF eBlock[e] = <<>> THEN "none" ELSE "env"]],
   conts |-> LET live == {c \in Conts : \E h \in HandlesL : hUid[h] # 0 /\ cOf[hUid[h]] = c}
                 sq == SetToSeqL(live)
             IN [i \in 1..Len(sq) |->
                   [id |-> sq[i],
                    hs |-> SetToSeqL({h \in HandlesL : hUid[h] # 0 /\ cOf[hUid[h]] = sq[i]}),
                    envs |-> cEnvs[sq[i]], objs |-> cObjs[sq[i]],
                    ps |-> [k \in 1..Len(cPS[sq[i]]) |->
                              [pid |-> psId[sq[i]][k], lv |-> "V", mem |-> cPS[sq[i]][k], rp |-> "vec",
                               n |-> PStr(Len(cPS[sq[i]][k])), fl |-> <<TRUE, TRUE, TRUE, TRUE>>, dg |-> "ps"]]]],
   hnd |-> LET hs == SetToSeqL({h \in HandlesL : hUid[h] # 0})
           IN [i \in 1..Len(hs) |-> [id |-> hs[i], cont |-> cOf[hUid[hs[i]]], reg |-> cOf[hUid[hs[i]]] # 0, inst |-> TRUE]],
   ops |-> <<>>, cfg |-> [contr |-> TRUE]]

Ev(a, entry, addr, conts, h, sep, destr, keys) ==
  [a |-> a, entry |-> entry, addr |-> addr, conts |-> conts, h |-> h, sep |-> sep, destr |-> destr, keys |-> keys,
   res |-> "ok", exc |-> "", ret |-> "", n |-> -1, ops |-> <<>>, jc |-> "same", draws |-> <<>>, keysrc |-> "none",
   uarr |-> "none", intent |-> "valid"]

(* ------------------------------ helpers ---------------------------------- *)
\* CompositeEnvelopeContainer.update_all_indices for container c given its (new) product spaces
RefreshIdx(idx, ce, pss, uid) ==
  [idx |-> [s \in SubsL |-> IF \E k \in 1..Len(pss) : s \in RngL(pss[k])
                             THEN LET k == CHOOSE kk \in 1..Len(pss) : s \in RngL(pss[kk])
                                  IN <<k - 1, IndexIn(pss[k], s) - 1>>
                             ELSE idx[s]],
   ce  |-> [s \in SubsL |-> IF \E k \in 1..Len(pss) : s \in RngL(pss[k]) THEN uid ELSE ce[s]]]
\* the uid under which container c is registered for handle h's view: _instances[uid][0] semantics
\* is abstracted to "the uid of the handle used"

(* ------------------- CompositeEnvelope.__init__( args ) -------------------- *)
\* args: envelopes E (free, or members of a composite: their composite is merged), free custom states K,
\* existing handles Gs IN THE ORDER GIVEN.  As in the code:
\*   composite_envelopes = Gs followed by e.composite_envelope (= _instances[e.composite_envelope_id][0], the handle
\*   that was born with that uid) for every given envelope that has one and is not in the list yet;
\*   the container of the FIRST of them survives, the others are appended to it once each, in order of appearance;
\*   every handle in the list gets the new uid; registry entries of absorbed containers are re-pointed to the survivor.
\* Handles are created in order and each creation allocates one uid, so the handle born with uid u is handle u.
RECURSIVE DistinctSeq(_, _)
DistinctSeq(sq, seen) == IF sq = <<>> THEN <<>>
                         ELSE IF Head(sq) \in seen THEN DistinctSeq(Tail(sq), seen)
                         ELSE <<Head(sq)>> \o DistinctSeq(Tail(sq), seen \cup {Head(sq)})
NewCompositeL(h, E, K, Gs) ==
  /\ hUid[h] = 0 /\ steps < MaxSteps
  /\ E \subseteq {e \in EnvsL : ~eMeas[e]} /\ K \subseteq {s \in SubsL : IsCus(s)}
  /\ RngL(Gs) \subseteq {g \in HandlesL : hUid[g] # 0}
  /\ E \cup K \cup RngL(Gs) # {}
  /\ LET uid   == nUid + 1
         viaE  == SelectSeq(SetToSeqL(E), LAMBDA e : eUid[e] # 0)
         L     == DistinctSeq(Gs \o [i \in 1..Len(viaE) |-> eUid[viaE[i]]], {})     \* handles, in the code's order
         CL    == [i \in 1..Len(L) |-> cOf[hUid[L[i]]]]
         keep  == IF L = <<>> THEN nCont + 1 ELSE CL[1]
         rest  == SelectSeq(IF L = <<>> THEN <<>> ELSE Tail(CL), LAMBDA c : c # keep)
         others == IF Fault = "dup_on_merge" THEN rest ELSE DistinctSeq(rest, {})
         absorbed == RngL(others)
         RECURSIVE Cat(_, _)
         Cat(f, i) == IF i > Len(others) THEN <<>> ELSE f[others[i]] \o Cat(f, i + 1)
         nps   == (IF L = <<>> THEN <<>> ELSE cPS[keep]) \o Cat(cPS, 1)
         nids  == (IF L = <<>> THEN <<>> ELSE psId[keep]) \o Cat(psId, 1)
         oldE  == DistinctSeq((IF L = <<>> THEN <<>> ELSE cEnvs[keep]) \o Cat(cEnvs, 1), {})
         oldO  == DistinctSeq((IF L = <<>> THEN <<>> ELSE cObjs[keep]) \o Cat(cObjs, 1), {})
         addE  == SetToSeqL(E \ RngL(oldE))
         newO  == UNION {{FockOfE(e), PolOfE(e)} : e \in E} \cup K
         addO  == SetToSeqL(newO \ RngL(oldO))
         envs2 == oldE \o addE
         r     == IF Fault = "no_refresh_on_merge" THEN [idx |-> sIdx, ce |-> sCE] ELSE RefreshIdx(sIdx, sCE, nps, uid)
         orphanKept == Fault = "stale_handles"      \* the pinned code left absorbed containers registered and untouched
     IN /\ uid = h                                  \* (see above)
        /\ nUid' = uid
        /\ nCont' = IF L = <<>> THEN nCont + 1 ELSE nCont
        /\ hUid' = [x \in HandlesL |-> IF x = h \/ x \in RngL(L) THEN uid ELSE hUid[x]]
        /\ cOf' = [u \in Uids |-> IF u = uid THEN keep
                                   ELSE IF cOf[u] \in absorbed /\ ~orphanKept THEN keep ELSE cOf[u]]
        /\ cEnvs' = [c \in Conts |-> IF c = keep THEN envs2 ELSE IF c \in absorbed /\ ~orphanKept THEN <<>> ELSE cEnvs[c]]
        /\ cObjs' = [c \in Conts |-> IF c = keep THEN oldO \o addO ELSE IF c \in absorbed /\ ~orphanKept THEN <<>> ELSE cObjs[c]]
        /\ cPS'   = [c \in Conts |-> IF c = keep THEN nps ELSE IF c \in absorbed /\ ~orphanKept THEN <<>> ELSE cPS[c]]
        /\ psId'  = [c \in Conts |-> IF c = keep THEN nids ELSE IF c \in absorbed /\ ~orphanKept THEN <<>> ELSE psId[c]]
        /\ eUid' = [e \in EnvsL |-> IF e \in RngL(envs2) THEN uid ELSE eUid[e]]
        /\ sIdx' = r.idx /\ sCE' = r.ce
        /\ lastEv' = Ev("new_composite", "ce", SetToSeqL(newO), SetToSeqL(absorbed \cup {keep}), h, FALSE, FALSE, <<>>)
        /\ UNCHANGED <<eBlock, eMeas, sOwn, sMeas, nPs>>
  /\ steps' = steps + 1

(* ---------------------------- Envelope.combine ---------------------------- *)
EnvCombineL(e) ==
  /\ steps < MaxSteps /\ ~eMeas[e] /\ eBlock[e] = <<>>
  /\ sOwn[FockOfE(e)] /\ sOwn[PolOfE(e)] /\ ~sMeas[FockOfE(e)] /\ ~sMeas[PolOfE(e)]
  /\ eBlock' = [eBlock EXCEPT ![e] = <<FockOfE(e), PolOfE(e)>>]
  /\ sOwn' = [s \in SubsL |-> IF EnvOfS(s) = e THEN FALSE ELSE sOwn[s]]
  /\ sIdx' = [s \in SubsL |-> IF s = FockOfE(e) THEN <<0>> ELSE IF s = PolOfE(e) THEN <<1>> ELSE sIdx[s]]
  /\ lastEv' = Ev("combine", "env", <<FockOfE(e), PolOfE(e)>>, <<>>, 0, FALSE, FALSE, <<>>)
  /\ steps' = steps + 1
  /\ UNCHANGED <<hUid, cOf, cEnvs, cObjs, cPS, psId, eUid, eMeas, sCE, sMeas, nUid, nCont, nPs>>
EnvReorderL(e) ==
  /\ steps < MaxSteps /\ eBlock[e] # <<>>
  /\ eBlock' = [eBlock EXCEPT ![e] = <<eBlock[e][2], eBlock[e][1]>>]
  /\ sIdx' = [s \in SubsL |-> IF s = eBlock[e][2] THEN <<0>> ELSE IF s = eBlock[e][1] THEN <<1>> ELSE sIdx[s]]
  /\ lastEv' = Ev("reorder", "env", <<eBlock[e][2], eBlock[e][1]>>, <<>>, 0, FALSE, FALSE, <<>>)
  /\ steps' = steps + 1
  /\ UNCHANGED <<hUid, cOf, cEnvs, cObjs, cPS, psId, eUid, eMeas, sOwn, sCE, sMeas, nUid, nCont, nPs>>

(* ----------------------- CompositeEnvelope.combine ------------------------ *)
\* through handle h, for the subsystems T (a sequence, all live and members of the container)
CECombineL(h, T) ==
  /\ steps < MaxSteps /\ hUid[h] # 0
  /\ LET c == cOf[hUid[h]] uid == hUid[h] IN
     /\ c # 0 /\ T # <<>> /\ \A j \in 1..Len(T) : T[j] \in RngL(cObjs[c]) /\ ~sMeas[T[j]]
     /\ ~(\E k \in 1..Len(cPS[c]) : RngL(T) \subseteq RngL(cPS[c][k]))      \* already together: no-op
     /\ LET hit   == {k \in 1..Len(cPS[c]) : RngL(T) \cap RngL(cPS[c][k]) # {}}
            hitSeq == SetToSeqOrd(hit)
            RECURSIVE CatPS(_)
            CatPS(i) == IF i > Len(hitSeq) THEN <<>> ELSE cPS[c][hitSeq[i]] \o CatPS(i + 1)
            fromPS == CatPS(1)
            \* envelope blocks of named subsystems are pulled in whole, in their stored order; own states follow
            RECURSIVE Pull(_, _)
            Pull(j, acc) ==
              IF j > Len(T) THEN acc
              ELSE LET s == T[j] IN
                   IF s \in RngL(acc) THEN Pull(j + 1, acc)
                   ELSE IF EnvOfS(s) # 0 /\ eBlock[EnvOfS(s)] # <<>> THEN Pull(j + 1, acc \o eBlock[EnvOfS(s)])
                   ELSE IF sOwn[s] THEN Pull(j + 1, acc \o <<s>>)
                   ELSE Pull(j + 1, acc)
            newps == Pull(1, fromPS)
            pulledEnvs == {EnvOfS(T[j]) : j \in {i \in 1..Len(T) : EnvOfS(T[i]) # 0 /\ eBlock[EnvOfS(T[i])] # <<>>
                                                                    /\ T[i] \notin RngL(fromPS)}}
            keepIdx == SetToSeqOrd((1..Len(cPS[c])) \ hit)
            pss   == [i \in 1..Len(keepIdx) |-> cPS[c][keepIdx[i]]] \o <<newps>>
            ids   == [i \in 1..Len(keepIdx) |-> psId[c][keepIdx[i]]] \o <<nPs + 1>>
            r     == RefreshIdx(sIdx, sCE, pss, uid)
        IN /\ cPS' = [cPS EXCEPT ![c] = pss] /\ psId' = [psId EXCEPT ![c] = ids] /\ nPs' = nPs + 1
           /\ eBlock' = [e \in EnvsL |-> IF e \in pulledEnvs THEN <<>> ELSE eBlock[e]]
           /\ sOwn' = [s \in SubsL |-> IF s \in RngL(newps) THEN FALSE ELSE sOwn[s]]
           /\ sIdx' = r.idx /\ sCE' = r.ce
           /\ lastEv' = Ev("combine", "ce", T, <<c>>, 0, FALSE, FALSE, <<>>)
  /\ steps' = steps + 1
  /\ UNCHANGED <<hUid, cOf, cEnvs, cObjs, eUid, eMeas, sMeas, nUid, nCont>>


(* ------------------------ CompositeEnvelope.reorder ------------------------ *)
\* reorder(T): T must already share a product space (otherwise combine first); the named subsystems are
\* swapped, one after the other, to the front positions of that product space; indices are refreshed
RECURSIVE SwapFront(_, _, _)
SwapFront(order, T, i) ==
  IF i > Len(T) THEN order
  ELSE LET j == IndexIn(order, T[i]) IN
       IF j = i THEN SwapFront(order, T, i + 1)
       ELSE SwapFront([k \in 1..Len(order) |-> IF k = i THEN T[i] ELSE IF k = j THEN order[i] ELSE order[k]], T, i + 1)
CEReorderL(h, T) ==
  /\ steps < MaxSteps /\ hUid[h] # 0
  /\ LET c == cOf[hUid[h]] uid == hUid[h] IN
     /\ c # 0 /\ T # <<>>
     /\ \E k \in 1..Len(cPS[c]) : RngL(T) \subseteq RngL(cPS[c][k])
     /\ LET k == CHOOSE kk \in 1..Len(cPS[c]) : RngL(T) \subseteq RngL(cPS[c][kk])
            pss == [cPS[c] EXCEPT ![k] = SwapFront(cPS[c][k], T, 1)]
            r == RefreshIdx(sIdx, sCE, pss, uid)
        IN /\ cPS' = [cPS EXCEPT ![c] = pss]
           /\ sIdx' = r.idx /\ sCE' = r.ce
           /\ lastEv' = Ev("reorder", "ce", T, <<c>>, 0, FALSE, FALSE, <<>>)
  /\ steps' = steps + 1
  /\ UNCHANGED <<hUid, cOf, cEnvs, cObjs, psId, eUid, eBlock, eMeas, sOwn, sMeas, nUid, nCont, nPs>>

(* ------------------------------ measurement ------------------------------- *)
\* CompositeEnvelope.measure( S, separate_measurement, destructive ) through handle h
CEMeasureL(h, S, sep, destr) ==
  /\ steps < MaxSteps /\ hUid[h] # 0
  /\ LET c == cOf[hUid[h]] uid == hUid[h] IN
     /\ c # 0 /\ S # {} /\ S \subseteq RngL(cObjs[c]) /\ \A s \in S : ~sMeas[s]
     /\ LET M  == S \cup (IF sep THEN {} ELSE {PartnerL(s) : s \in {x \in S : PartnerL(x) # 0 /\ ~sMeas[PartnerL(x)]}})
            D  == IF destr THEN {s \in M : ~IsCus(s)} ELSE {}
            \* an envelope block with a measured member is dissolved: both members go back to their own state
            dissolved == {e \in EnvsL : eBlock[e] # <<>> /\ RngL(eBlock[e]) \cap M # {}}
            pss0 == [k \in 1..Len(cPS[c]) |-> SeqWithout(cPS[c][k], M)]
            keepIdx == SetToSeqOrd({k \in 1..Len(pss0) : pss0[k] # <<>>})
            pss  == [i \in 1..Len(keepIdx) |-> pss0[keepIdx[i]]]
            ids  == [i \in 1..Len(keepIdx) |-> psId[c][keepIdx[i]]]
            retired == {e \in EnvsL : destr /\ {FockOfE(e), PolOfE(e)} \cap M # {}}
            idx1 == [s \in SubsL |-> IF s \in M \/ (EnvOfS(s) \in dissolved) THEN <<>> ELSE sIdx[s]]
            r    == IF Fault = "refresh_before_remove" THEN RefreshIdx(idx1, sCE, pss0, uid) ELSE RefreshIdx(idx1, sCE, pss, uid)
        IN /\ cPS' = [cPS EXCEPT ![c] = pss] /\ psId' = [psId EXCEPT ![c] = ids]
           /\ eBlock' = [e \in EnvsL |-> IF e \in dissolved THEN <<>> ELSE eBlock[e]]
           /\ sMeas' = [s \in SubsL |-> sMeas[s] \/ s \in D]
           /\ sOwn' = [s \in SubsL |-> IF s \in D THEN FALSE
                                       ELSE IF s \in M \/ EnvOfS(s) \in dissolved THEN TRUE ELSE sOwn[s]]
           /\ sIdx' = r.idx /\ sCE' = r.ce
           /\ eMeas' = [e \in EnvsL |-> eMeas[e] \/ e \in retired]
           /\ cEnvs' = [cEnvs EXCEPT ![c] = SeqWithout(@, retired)]
           /\ eUid' = [e \in EnvsL |-> IF e \in retired THEN 0 ELSE eUid[e]]
           /\ lastEv' = Ev("measure", "ce", SetToSeqL(S), <<c>>, 0, sep, destr, SetToSeqL(M))
  /\ steps' = steps + 1
  /\ UNCHANGED <<hUid, cOf, cObjs, nUid, nCont, nPs>>


(* ----------------------------- Envelope.measure ---------------------------- *)
\* env.measure( S, separate_measurement, destructive ) for an envelope whose members are both stored in
\* the envelope (combined) or both hold their own state; S = {} means both members
EnvMeasureL(e, S, sep, destr) ==
  /\ steps < MaxSteps /\ ~eMeas[e]
  /\ LET mem == {FockOfE(e), PolOfE(e)} IN
     /\ S \subseteq mem /\ \A s \in mem : ~sMeas[s] /\ (sOwn[s] \/ eBlock[e] # <<>>)
     /\ LET M == IF sep /\ Cardinality(S) = 1 THEN S ELSE mem
            D == IF destr THEN M ELSE {}
        IN /\ eBlock' = [eBlock EXCEPT ![e] = <<>>]
           /\ sMeas' = [s \in SubsL |-> sMeas[s] \/ s \in D]
           /\ sOwn' = [s \in SubsL |-> IF s \in D THEN FALSE ELSE IF s \in mem THEN TRUE ELSE sOwn[s]]
           /\ sIdx' = [s \in SubsL |-> IF s \in mem THEN <<>> ELSE sIdx[s]]
           \* the envelope is retired (and leaves its composite) whenever the call was destructive
           /\ eMeas' = [eMeas EXCEPT ![e] = destr]
           /\ cEnvs' = [c \in Conts |-> IF destr THEN SeqWithout(cEnvs[c], {e}) ELSE cEnvs[c]]
           /\ eUid' = [eUid EXCEPT ![e] = IF destr THEN 0 ELSE @]
           /\ lastEv' = Ev("measure", "env", SetToSeqL(IF S = {} THEN mem ELSE S), <<>>, 0, sep, destr, SetToSeqL(M))
  /\ steps' = steps + 1
  /\ UNCHANGED <<hUid, cOf, cObjs, cPS, psId, sCE, nUid, nCont, nPs>>

LInit ==
  /\ hUid = [h \in HandlesL |-> 0] /\ cOf = [u \in Uids |-> 0]
  /\ cEnvs = [c \in Conts |-> <<>>] /\ cObjs = [c \in Conts |-> <<>>] /\ cPS = [c \in Conts |-> <<>>]
  /\ psId = [c \in Conts |-> <<>>]
  /\ eUid = [e \in EnvsL |-> 0] /\ eBlock = [e \in EnvsL |-> <<>>] /\ eMeas = [e \in EnvsL |-> FALSE]
  /\ sOwn = [s \in SubsL |-> TRUE] /\ sIdx = [s \in SubsL |-> <<>>] /\ sCE = [s \in SubsL |-> 0]
  /\ sMeas = [s \in SubsL |-> FALSE]
  /\ nUid = 0 /\ nCont = 0 /\ nPs = 0 /\ steps = 0
  /\ lastEv = Ev("init", "cfg", <<>>, <<>>, 0, FALSE, FALSE, <<>>)

\* sequences of up to three distinct handles
HandleSeqs == {<<>>} \cup {<<a>> : a \in HandlesL}
              \cup {sq \in {<<a, b>> : a \in HandlesL, b \in HandlesL} : sq[1] # sq[2]}
              \cup {sq \in {<<a, b, c>> : a \in HandlesL, b \in HandlesL, c \in HandlesL} :
                       sq[1] # sq[2] /\ sq[1] # sq[3] /\ sq[2] # sq[3]}
FreeEnv(e) == eUid[e] = 0 /\ ~eMeas[e]
FreeCus(s) == IsCus(s) /\ \A c \in Conts : s \notin RngL(cObjs[c])
LNext ==
  \/ \E h \in HandlesL : \E E \in SUBSET {e \in EnvsL : ~eMeas[e]} : \E K \in SUBSET {s \in SubsL : FreeCus(s)} :
       \E Gs \in HandleSeqs :
          /\ Cardinality(E) + Cardinality(K) + Len(Gs) <= 3
          /\ (IF h = 1 THEN TRUE ELSE hUid[h - 1] # 0)                      \* handles are created in order
          /\ NewCompositeL(h, E, K, Gs)
  \/ \E e \in EnvsL : EnvCombineL(e) \/ EnvReorderL(e)
  \/ \E h \in HandlesL : \E T \in SeqsUpTo2 : CECombineL(h, T) \/ CEReorderL(h, T)
  \/ \E e \in EnvsL : \E S \in SUBSET {FockOfE(e), PolOfE(e)} : \E sep, destr \in BOOLEAN : EnvMeasureL(e, S, sep, destr)
  \/ \E h \in HandlesL : \E S \in SUBSET SubsL : \E sep, destr \in BOOLEAN :
       Cardinality(S) \in {1, 2} /\ CEMeasureL(h, S, sep, destr)
LSpec == LInit /\ [][LNext]_lvars

(* ---------------- the contract, literally, on the projection -------------- *)
Truthful ==
  LET P == Proj IN
  /\ OneHome(P) /\ IndexNamesHome(P) /\ HandlesAgree(P) /\ BackPointers(P) /\ NoDupNoEmpty(P) /\ MeasuredGone(P)
\* relational clauses on every step: pre = projection before, post = after, event = lastEv'
StepClauses ==
  [][LET pre == Proj post == Proj' ev == lastEv' IN
       /\ MergeUnifies(pre, post, ev)
       /\ Isolation(pre, post, ev)
       /\ BystanderUntouched(pre, post, ev)
       /\ MergeOnlyAddressed(pre, post, ev)
       /\ MeasuredLeaves(post, ev)
       /\ OnlyMeasurementDestroys(pre, post, ev)
       /\ OutcomeKeys(pre, ev)]_lvars
=============================================================================

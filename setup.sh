#!/bin/bash
# Build step after a fresh restore (offline): export the operator library from the TLA+
# specification and check that the specification parses.  Everything else is interpreted.
set -e
cd "$(dirname "$0")"
mkdir -p out evidence
export PYTHONPATH=/verif
/venv/bin/python - <<'PY'
from harness import check
check.ensure_speclib()
print("speclib exported")
PY
for m in PW MC PWContract PWTrace Gates; do
  (cd spec && tla-sany $m.tla) > out/sany_$m.log 2>&1 || { cat out/sany_$m.log; exit 1; }
done
echo "setup ok"
